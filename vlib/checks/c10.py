"""C10 -- lowering a graph to a job and running a task preserves what each node computes (E5/E6 generators + real runner)."""

from __future__ import annotations

import functools

from vlib.common.core import Collector, case_rng, digest, guarded
from vlib.jobgen import sym_gen, sym_task, sym_value

ID = "C10"
LEVEL = "exploration"
MANIFEST = dict(
    engine="E5/E6+runner", engine_path="vlib/checks/c10.py",
    kind="generated hand-built graphs (payload tuples) and fluent programs -> real graph2job -> every task executed by the real runner.run with an in-memory Memory stand-in; values compared with direct evaluation of the graph",
    technique="runtime monitoring with a reference evaluator: task callables are recorders returning symbolic terms of exactly the arguments they received (hand-built graphs) or NumPy arrays (fluent programs); after lowering with the real graph2job every task is run by the real runner.run in topological order and the value stored under each DatasetId is compared with the independent evaluation of the *graph*, a generator's i-th value belonging to node.outputs[i]; structural monitor on tasks/edges; generators yielding declared+-k values must fail the task; plus a direct injectivity probe of the shared-memory key (ds2shmid) over families of (task, output) pairs whose plain or separator-joined concatenations coincide",
    text="Held = structure (one task per node, one edge per input at the position of the input's name) and every stored value agreed with direct evaluation on all graphs generated, and every output-count mismatch raised.",
    note="Memory is replaced by an in-memory store with the same provide/handle interface (shared memory is C09's business); graphs follow the documented payload convention (inputs named in args, static kwargs).",
)
RULE = (
    "case = one hand-built graph (1-10 nodes; 0-4 inputs per node in permuted positions, static args interleaved incl. strings, kwargs, same dataset via two "
    "inputs, the same input name twice in args (own class); 1..13 outputs, str(i) names or hand-named unsorted) or one fluent program (FluentShadow generator "
    "incl. generator maps with 1..13 yields and single-output generator nodes), or one count-mismatch probe (declared n>=1, yields n+-k); non-trivial = >=2 nodes and >=1 edge or a multi-output node; "
    "distinct = digest(kind, arities, output counts, arg layout)"
)
ASSUMPTIONS = ["payload convention: (func, args, kwargs); an arg equal to one of the node's input names is replaced by that input's value"]
REQUIRED_COUNTERS = ["hand_graphs", "fluent_graphs", "tasks_run", "values_compared", "edges_checked", "count_mismatch_probes", "multi_output_nodes", "outputs_over_10"]


class SimMemory:
    """Same provide/handle/flush interface as executor.runner.memory.Memory, kept in a dict."""

    def __init__(self):
        self.store = {}
        self.handled = []

    def provide(self, inputId, annotation):
        return self.store[inputId]

    def handle(self, outputId, outputSchema, outputValue, isPublish):
        self.handled.append(outputId)
        self.store[outputId] = outputValue

    def flush(self):
        pass


STATICS = [0, 1, -2, 2.5, None, (1, 2), "s", "static", "input9", True]


def gen_hand_graph(rng):
    """Returns (Graph, spec) where spec[name] = {outputs, args (with input names), kwargs, inputs {iname: (parent, out)}, nyield}."""
    from earthkit.workflows.graph import Graph, Node
    n = rng.randint(1, 10)
    spec = {}
    nodes = {}
    order = []
    for i in range(n):
        name = f"n{i}"
        cands = [(p, o) for p in order for o in spec[p]["outputs"]]
        k = min(len(cands), rng.choice([0, 1, 1, 2, 3, 4])) if cands else 0
        srcs = [rng.choice(cands) for _ in range(k)]
        inames = [f"input{j}" for j in range(k)] if rng.random() < 0.7 else rng.sample(["x", "y", "z", "w", "in"], k)
        args = list(inames)
        rng.shuffle(args)
        # interleave statics
        for _ in range(rng.choice([0, 0, 1, 2])):
            args.insert(rng.randint(0, len(args)), rng.choice([s for s in STATICS if s not in inames]))
        dup = False
        if inames and rng.random() < 0.06:
            args.insert(rng.randint(0, len(args)), rng.choice(inames))  # the same input name twice
            dup = True
        kwargs = {f"k{j}": rng.choice(STATICS) for j in range(rng.choice([0, 0, 1, 2]))}
        r = rng.random()
        if r < 0.55:
            outs = None
        elif r < 0.85:
            outs = [str(j) for j in range(rng.randint(2, 5))]
        elif r < 0.93:
            outs = [str(j) for j in range(rng.randint(11, 13))]
        else:
            outs = rng.sample(["b", "a", "d", "c", "z", "m"], rng.randint(2, 4))
        nout = 1 if outs is None else len(outs)
        # a node with one output may be a generator all the same (fluent `yields` with one coordinate): it yields that one value
        single_gen = nout == 1 and rng.random() < 0.2
        func = functools.partial(sym_task, name) if nout == 1 and not single_gen else functools.partial(sym_gen, name, nout)
        inputs = {iname: nodes[p].get_output(o) for iname, (p, o) in zip(inames, srcs)}
        nodes[name] = Node(name, outs, (func, list(args), dict(kwargs)), **inputs)
        spec[name] = {"outputs": ["0"] if outs is None else list(outs), "args": list(args), "kwargs": dict(kwargs),
                      "inputs": dict(zip(inames, srcs)), "dup": dup, "single_gen": single_gen}
        order.append(name)
    consumed = {p for s in spec.values() for (p, _o) in s["inputs"].values()}
    return Graph([nodes[nm] for nm in order if nm not in consumed]), spec, order


def reference_hand(spec, order):
    vals = {}
    for name in order:
        s = spec[name]
        args = tuple(vals[s["inputs"][a]] if isinstance(a, str) and a in s["inputs"] else a for a in s["args"])
        for i, o in enumerate(s["outputs"]):
            vals[(name, o)] = sym_value(name, i, args, s["kwargs"])
    return vals


def run_job(job, col, expect_fail=False):
    """Runs every task through the real runner.run in topological order. Returns (SimMemory, failure or None)."""
    import cascade.executor.runner.runner as runner
    from cascade.executor.msg import TaskSequence
    from cascade.executor.runner.entrypoint import RunnerContext
    from cascade.low.core import WorkerId
    from cascade.low.views import param_source
    import graphlib
    deps = {t: set() for t in job.tasks}
    for e in job.edges:
        deps[e.sink_task].add(e.source.task)
    order = list(graphlib.TopologicalSorter(deps).static_order())
    w = WorkerId("h0", "w0")
    rc = RunnerContext(workerId=w, job=job, callback="none://", param_source=param_source(job.edges))
    mem = SimMemory()
    for t in order:
        ctx = rc.project(TaskSequence(worker=w, tasks=[t], publish=set()))
        try:
            runner.run(t, ctx, mem)
        except Exception as e:  # noqa: BLE001
            return mem, (t, e)
        col.count("tasks_run")
    return mem, None


def same(a, b):
    import numpy as np
    if isinstance(a, np.ndarray) or isinstance(b, np.ndarray):
        try:
            return bool(np.allclose(np.asarray(a, dtype="float64"), np.asarray(b, dtype="float64"), rtol=1e-9, atol=1e-9, equal_nan=True))
        except Exception:  # noqa: BLE001
            return False
    return a == b


def case_hand(col, rng, index):
    import cascade.low.into as into
    from cascade.low.core import DatasetId
    g, spec, order = gen_hand_graph(rng)
    wit = {"kind": "hand", "nodes": {k: {"outputs": v["outputs"], "args": [repr(a) for a in v["args"]], "kwargs": repr(v["kwargs"]), "inputs": {i: list(p) for i, p in v["inputs"].items()}} for k, v in spec.items()}}
    multi = [s for s in spec.values() if len(s["outputs"]) > 1]
    col.count("hand_graphs")
    col.count("multi_output_nodes", len(multi))
    col.count("outputs_over_10", sum(1 for s in multi if len(s["outputs"]) > 10))
    nedges = sum(len(s["inputs"]) for s in spec.values())
    col.case(shape=digest("hand", [(len(s["inputs"]), len(s["outputs"]), len(s["args"]), len(s["kwargs"]), s["dup"], s["outputs"] == sorted(s["outputs"])) for s in spec.values()]),
             nontrivial=(len(spec) >= 2 and nedges >= 1) or bool(multi), sample=wit)
    anydup = any(s["dup"] for s in spec.values())
    try:
        job = into.graph2job(g)
    except Exception as e:  # noqa: BLE001
        col.violation(f"graph2job-raises-{type(e).__name__}" + (":repeated-input-name-in-args" if anydup else ""), f"{e!r:.200}", wit, index)
        return
    # ---- structural monitor -----------------------------------------------------------------------------
    if set(job.tasks) != set(spec):
        col.violation("lowering:tasks-differ-from-nodes", f"{sorted(job.tasks)} vs {sorted(spec)}", wit, index)
        return
    exp_edges = sorted((s["inputs"][a][0], s["inputs"][a][1], name, pos) for name, s in spec.items() for pos, a in enumerate(s["args"]) if isinstance(a, str) and a in s["inputs"])
    got_edges = sorted((e.source.task, e.source.output, e.sink_task, e.sink_input_ps) for e in job.edges)
    col.count("edges_checked", len(got_edges))
    if any(e.sink_input_kw is not None for e in job.edges) or got_edges != exp_edges:
        cls = ":repeated-input-name-in-args" if anydup else ""
        col.violation(f"lowering:edges-differ{cls}", f"edges {got_edges[:6]} != expected (one per input at the position of its name) {exp_edges[:6]}", wit, index)
        return
    for name, s in spec.items():
        if list(job.tasks[name].definition.output_schema) != s["outputs"]:
            col.violation("lowering:outputs-differ", f"{name}: {list(job.tasks[name].definition.output_schema)} vs {s['outputs']}", wit, index)
            return
    # ---- behavioural oracle -------------------------------------------------------------------------------
    ref = reference_hand(spec, order)
    mem, fail = run_job(job, col)
    if fail is not None:
        col.violation(f"runner-raises-{type(fail[1]).__name__}", f"task {fail[0]} raised {fail[1]!r:.200}", wit, index)
        return
    for (name, o), exp in ref.items():
        got = mem.store.get(DatasetId(name, o), "<missing>")
        col.count("values_compared")
        if got != exp:
            s = spec[name]
            if len(s["outputs"]) > 1 and sorted(s["outputs"]) != s["outputs"]:
                cls = "generator-outputs-bound-in-sorted-order:" + ("numeric-names-N>10" if all(x.isdigit() for x in s["outputs"]) else "declared-order-not-sorted")
            elif got == "<missing>":
                cls = "output-never-stored"
            else:
                cls = "value-differs"
            col.violation(cls, f"DatasetId({name}.{o}): stored {got!r:.100}, direct evaluation of the graph gives {exp!r:.100} (outputs declared {s['outputs']})", wit, index)
            return


def case_fluent(col, rng, index):
    import numpy as np
    import cascade.low.into as into
    from cascade.low.core import DatasetId
    from vlib import fluentshadow as fs
    src, ops = fs.gen_program(rng, depth=3)
    big = rng.random() < 0.25
    if big:
        n = rng.randint(11, 13)
        ops = ops[: rng.randint(0, 2)] + [{"op": "map_gen", "dim": "gg", "n": n, "values": list(range(n))}]
    a, bad, exc = fs.run_fluent(src, ops)
    if a is None:
        col.observe("fluent_program_did_not_build")  # C13's business
        col.case(shape=("fluent", "nobuild"), nontrivial=False)
        return
    from earthkit.workflows import Cascade
    g = Cascade.from_actions([a])._graph  # the documented route: the union de-duplicates replicated nodes before lowering
    wit = {"kind": "fluent", "source": {k: (list(v) if isinstance(v, tuple) else v) for k, v in src.items()}, "ops": ops}
    nodes = list(g.nodes())
    multi = [nd for nd in nodes if len(nd.outputs) > 1]
    col.count("fluent_graphs")
    col.count("multi_output_nodes", len(multi))
    col.count("outputs_over_10", sum(1 for nd in multi if len(nd.outputs) > 10))
    col.case(shape=digest("fluent", [o["op"] for o in ops], len(src["dims"]), big), nontrivial=len(nodes) >= 2, sample=wit)
    try:
        ref = fs.evaluate_graph(g)
    except Exception as e:  # noqa: BLE001
        col.observe("fluent_reference_evaluation_failed")
        return
    try:
        job = into.graph2job(g)
    except Exception as e:  # noqa: BLE001
        col.violation(f"graph2job-raises-{type(e).__name__}:fluent", f"{e!r:.200}", wit, index)
        return
    if set(job.tasks) != {nd.name for nd in nodes} or len(job.tasks) != len(nodes):
        col.violation("lowering:tasks-differ-from-nodes:fluent", f"{len(job.tasks)} tasks for {len(nodes)} nodes", wit, index)
        return
    n_in = sum(len(nd.inputs) for nd in nodes)
    col.count("edges_checked", len(job.edges))
    if len(job.edges) != n_in:
        col.violation("lowering:edges-differ:fluent", f"{len(job.edges)} edges for {n_in} node inputs", wit, index)
        return
    mem, fail = run_job(job, col)
    if fail is not None:
        col.violation(f"runner-raises-{type(fail[1]).__name__}:fluent", f"task {fail[0]!r:.40} raised {fail[1]!r:.200}", wit, index)
        return
    for nd in nodes:
        rv = ref[id(nd)]
        for o in nd.outputs:
            exp = rv[o] if isinstance(rv, dict) else rv
            got = mem.store.get(DatasetId(nd.name, o), "<missing>")
            col.count("values_compared")
            if isinstance(got, str) or not same(got, exp):
                if len(nd.outputs) > 10:
                    cls = "generator-outputs-bound-in-sorted-order:numeric-names-N>10"
                else:
                    cls = "value-differs:fluent" if not isinstance(got, str) else "output-never-stored:fluent"
                col.violation(cls, f"DatasetId({nd.name[:30]}.{o}): stored {np.asarray(got).tolist() if not isinstance(got, str) else got!r:.100} != {np.asarray(exp).tolist()!r:.100} ({len(nd.outputs)} outputs)", wit, index)
                return


def gen_with_tail(tid, n_real, tail, *args, **kwargs):
    """yields n_real ordinary values, then the given tail values (None, 0, '' ... are values like any other)"""
    for i in range(n_real):
        yield sym_value(tid, i, args, kwargs)
    for v in tail:
        yield v


def case_mismatch(col, rng, index):
    """Declared n outputs, generator yields n +- k: the task must fail, for every k."""
    import cascade.low.into as into
    from earthkit.workflows.graph import Graph, Node
    n = rng.choice([1, 2, 3, 4, 5, 12])
    k = rng.choice([1, 2, 3])
    sign = rng.choice([-1, 1])
    ny = n + sign * k
    if ny < 0:
        ny = 0
    outs = [str(i) for i in range(n)] if n > 1 else None       # one declared output: the default output, the callable is a generator all the same
    if ny > n and rng.random() < 0.5:
        # the surplus values are falsy / None: a value is a value, the count is what matters
        tail = [rng.choice([None, 0, "", False, (), 0.0]) for _ in range(ny - n)]
        func = functools.partial(gen_with_tail, "gen", n, tail)
        col.count("count_mismatch_probes_with_falsy_surplus")
    elif ny < n and ny > 0 and rng.random() < 0.3:
        func = functools.partial(gen_with_tail, "gen", 0, [rng.choice([None, 0, ""]) for _ in range(ny)])
    else:
        func = functools.partial(sym_gen, "gen", ny)
    node = Node("gen", outs, (func, [], {}))
    outs = outs or ["0"]
    consumer = Node("use", None, (functools.partial(sym_task, "use"), ["input0"], {}), input0=node.get_output(outs[-1]))
    g = Graph([consumer])
    wit = {"kind": "mismatch", "declared": n, "yields": ny}
    col.count("count_mismatch_probes")
    col.case(shape=("mismatch", n, ny), nontrivial=True, sample=wit)
    job = into.graph2job(g)
    mem, fail = run_job(job, col)
    if fail is None or fail[0] != "gen":
        col.violation(f"count-mismatch-not-reported:yields-{'one-fewer' if ny == n - 1 else ('fewer' if ny < n else ('one-more' if ny == n + 1 else 'more'))}",
                      f"generator declared {n} outputs and yielded {ny}; runner.run did not raise" + (f" (failed later in {fail[0]}: {fail[1]!r:.80})" if fail else ""), wit, index)


def case_store_keys(col, rng, index):
    """The key under which a dataset travels through shared memory (ds2shmid) must tell any two datasets apart: families of
    (task, output) pairs whose plain or separator-joined concatenations coincide must get pairwise distinct keys -- otherwise the
    callable of a consumer receives another node's value (or the second store fails)."""
    from cascade.executor.runner.memory import ds2shmid
    from cascade.low.core import DatasetId
    a = rng.choice(["t", "fc", "n1", "x.y", "a:b", "0"])
    b = rng.choice(["1", "t2m", ".", "0", "b", "10"])
    c = rng.choice(["0", "1", "x", "10", ".0"])
    fam = []
    for sep in ("", ".", ":", "_", "/", " "):
        fam += [DatasetId(a + sep + b, c), DatasetId(a, b + sep + c), DatasetId(a + sep, b + c), DatasetId(a, sep + b + c)]
    fam += [DatasetId(a + b, "0"), DatasetId(a, b + "0"), DatasetId(f"{len(a)}:{a}", b), DatasetId(a, f"{len(a)}:{b}")]
    distinct = {(d.task, d.output) for d in fam}
    keys = {}
    col.count("store_key_families")
    col.case(shape=("keys", a, b, c), nontrivial=True, sample={"family": [[d.task, d.output] for d in fam[:8]]})
    for t, o in sorted(distinct):
        k = ds2shmid(DatasetId(t, o))
        col.count("store_keys_checked")
        if k in keys and keys[k] != (t, o):
            col.violation("store-key-collision", f"datasets {keys[k]!r} and {(t, o)!r} travel under the same shared-memory key {k}", {"a": keys[k], "b": (t, o)}, index)
            return
        keys[k] = (t, o)


def run_shard(spec, col: Collector):
    import logging
    import warnings
    warnings.simplefilter("ignore")
    logging.getLogger("cascade").setLevel(logging.CRITICAL)
    seed, shard = spec["seed"], spec["shard"]
    for i in range(spec["n"]):
        if col.out_of_time():
            break
        if col.want(i):
            rng = case_rng(seed, shard, i)
            r = rng.random()
            fn = case_hand if r < 0.55 else (case_fluent if r < 0.83 else (case_mismatch if r < 0.97 else case_store_keys))
            guarded(col, i, fn, col, rng, i)


def plan(tier, seed, scale=1.0):
    q = tier == "quick"
    n, copies = (250, 8) if q else (20000, 16)
    return [dict(shard=f"l{c}", n=int(n * scale), budget_s=60 if q else 900, timeout_s=180 if q else 1500,
                 hash_seed=(seed * 53 + c) % 4294967295) for c in range(copies)]
