"""C01 -- a distributed run returns exactly the values sequential evaluation would (engine E1 SimCluster; E2 slice in c01 real tier)."""

from vlib.checks._sim import make_plan, run_shard  # noqa: F401

ID = "C01"
LEVEL = "exploration"
MANIFEST = dict(
    engine="E1-simcluster", engine_path="vlib/simcluster.py",
    kind="real controller + scheduler against SimBridge (executable nondeterministic model of the executors, seeded adversarial schedulers); task bodies run through the real runner and serde",
    technique="runtime monitoring of the real controller loop behind the Bridge seam: generated jobs x cluster shapes x event-delivery schedules; task callables return symbolic terms identifying every argument and position; the returned State.outputs is compared with an independent sequential evaluator",
    text="Held = for every generated job, environment and schedule the run returned exactly the requested datasets with values equal to sequential evaluation.",
    note="the executors are a model (orders allowed = those the transports allow; per-origin FIFO in the default classes); multi-output values are bound to key-sorted output names (C10 owns the declared-order question).",
)
RULE = ("case = one controller run: generated job DAG (0-16 tasks quick / 40 thorough; layered, triangular, chains, diamonds, fan-in, components, isolated, empty; 1-13 outputs; positional/keyword "
        "edges with static args and gaps; ext_outputs any subset) x environment 1-4 hosts x 1-4 workers (GPU workers as needed) x scheduler policy (uniform, eager, lazy, late, skewed, purge-first, "
        "data-first) x PYTHONHASHSEED per shard; non-trivial = >=2 tasks and >=1 edge; distinct = digest(job skeleton, environment, policy, executor-action/event order)")
ASSUMPTIONS = ["executors eventually execute every command (fair model)", "per-origin FIFO of events except in the reorder-by-retransmission class"]
REQUIRED_COUNTERS = ["runs", "runs_returned", "outputs_compared", "runs_multi_host", "commands_transmit", "commands_fetch"]
plan = make_plan("C01", "values", 59)
