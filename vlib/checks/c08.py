"""C08 -- the shared-memory store never hands out more memory than its capacity (engine E4, ShmHarness)."""

from __future__ import annotations

import os

from vlib.common.core import Collector, case_rng, digest, guarded

ID = "C08"
LEVEL = "exploration"
MANIFEST = dict(
    engine="E4-shmharness", engine_path="vlib/shmharness.py",
    kind="real shm.dataset.Manager + real SharedMemory segments + controllable Disk (harness schedules/fails page-out and page-in jobs) + virtual clock",
    technique="runtime invariant monitoring at hooked state: after every operation and every disk-job completion of a generated history the harness asserts resident<=capacity, 0<=free<=capacity, free==capacity-resident at quiescent points, real /dev/shm bytes<=capacity, and checks each allocate/get reply against the accounting (wait iff it does not fit, grant reserves exactly size, page-in reserves before reading back)",
    text="Held = all invariant evaluations and admission checks passed on every history explored (operation mixes incl. purge racing a page-out between file write and unlink, injected disk failures, stale handles); the evidence lists evaluations, abstract states visited and completed page-outs/page-ins.",
    note="Interleavings are those CPython can produce: disk callbacks run either inline or in a thread parked at SharedMemory.unlink; races inside one bytecode statement are out of reach. After an injected disk failure only the <= capacity side is demanded by the property; the equality is still asserted because the code keeps it.",
)
RULE = (
    "case = one history of <=400 (quick) / <=2000 (thorough) operations on a Manager of capacity 4..256 B with 1-8 keys: allocate, finish-write, get, "
    "finish-read, purge, run oldest/random disk job, fail a disk job (clean / after side effect), purge between page-out file write and unlink, advance the "
    "virtual clock (incl. beyond the 15 min staleness windows), bounded-grant probes; non-trivial = >=1 completed page-out and >=20 operations; "
    "distinct = digest of the operation/outcome trace"
)
ASSUMPTIONS = ["clients behave as shm/client.py does (create segment after a granted allocate, close callbacks)", "one Manager per history; monitors run on the thread that drives the Manager"]
REQUIRED_COUNTERS = ["accounting_checks", "accounting_equalities", "allocate_granted", "allocate_wait", "pageouts_completed", "pageins_completed", "pagein_reservations"]
PROP = "C08"


def one_history(col: Collector, rng, index: int, max_ops: int, prop: str):
    from vlib.shmharness import History
    prefix = f"v{os.getpid() % 100000:05d}{index % 1000:03d}"
    h = History(col, rng, index, prop, prefix, max_ops)
    n = h.run()
    outs = sum(1 for t in h.trace if t[0] == "job-run" and t[1] == "out" and t[3] == "ok")
    col.case(shape=digest([t[:3] for t in h.trace]), nontrivial=outs >= 1 and n >= 20,
             sample={"capacity": h.capacity, "keys": len(h.keys), "ops": n, "trace_head": h.trace[:30]})
    col.count("operations", n)


def run_shard(spec, col: Collector):
    import logging
    import warnings
    logging.getLogger("cascade").setLevel(logging.CRITICAL + 10)
    logging.disable(logging.CRITICAL)
    warnings.simplefilter("ignore")
    seed, shard = spec["seed"], spec["shard"]
    for i in range(spec["n"]):
        if col.out_of_time():
            break
        if col.want(i):
            rng = case_rng(seed, shard, i)
            guarded(col, i, one_history, col, rng, i, rng.choice([60, 150, spec["max_ops"]]), spec.get("prop", PROP))


def plan(tier, seed, scale=1.0):
    q = tier == "quick"
    n, copies, ops = (60, 8, 400) if q else (1500, 16, 2000)
    return [dict(shard=f"m{c}", n=int(n * scale), max_ops=ops, prop=PROP, budget_s=60 if q else 900, timeout_s=180 if q else 1500,
                 hash_seed=(seed * 41 + c) % 4294967295) for c in range(copies)]
