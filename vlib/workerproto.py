"""Worker protocol harness (C02, last clause): the real executor.runner.entrypoint.entrypoint in a forked process with a real
shm server; the harness plays executor and sends TaskSequence / DatasetPublished / DatasetPurge to the worker socket in
every permutation, writing each input to shared memory just before its notice. A wrapper around execute_sequence
(installed before the fork) records, at the instant a sequence starts, whether every required input is readable.

Run as: python -m vlib.workerproto <spec.json>   (prints one RESULT line; own session)
"""

from __future__ import annotations

import glob
import itertools
import json
import os
import random
import sys
import time
import traceback


def worker_main(rc, evlog):
    os.environ["VERIF_EVLOG"] = evlog
    import logging
    logging.disable(logging.CRITICAL)
    import cascade.executor.config as cfg
    for k in cfg.logging_config["loggers"]:
        cfg.logging_config["loggers"][k]["level"] = "CRITICAL"
    import cascade.executor.runner.entrypoint as ep
    import cascade.shm.client as shm_client
    from cascade.executor.runner.memory import ds2shmid
    from vlib.faulttasks import log
    real = ep.execute_sequence

    def wrapper(taskSequence, memory, pckg, runnerContext):
        req = {d for t in taskSequence.tasks for d in runnerContext.param_source[t].values()}
        unreadable = []
        for d in sorted(req, key=repr):
            try:
                buf = shm_client.get(ds2shmid(d), timeout_sec=0.2)
                buf.close()
            except Exception:  # noqa: BLE001
                unreadable.append(repr(d))
        log("seq-start", ",".join(taskSequence.tasks), "unreadable=" + ";".join(unreadable))
        try:
            return real(taskSequence, memory, pckg, runnerContext)
        finally:
            log("seq-end", ",".join(taskSequence.tasks))
    ep.execute_sequence = wrapper
    real_des = ep.serde.des_message

    def des_message(raw):
        m = real_des(raw)
        log("msg-recv", type(m).__name__)      # the worker loop has taken this message off its socket
        return m

    class _Serde:
        def __getattr__(self, k):
            return des_message if k == "des_message" else getattr(real_serde, k)
    real_serde = ep.serde
    ep.serde = _Serde()
    ep.entrypoint(rc)


def run(spec):
    import logging
    logging.disable(logging.CRITICAL)
    from multiprocessing import get_context
    import cloudpickle
    import cascade.executor.comms as comms
    import cascade.executor.config as cfg
    import cascade.executor.serde as serde
    import cascade.shm.api as shm_api
    import cascade.shm.client as shm_client
    from cascade.executor.msg import DatasetPublished, DatasetPurge, TaskFailure, TaskSequence, WorkerReady, WorkerShutdown
    from cascade.executor.runner.entrypoint import RunnerContext, worker_address
    from cascade.executor.runner.memory import ds2shmid
    from cascade.low.core import DatasetId, WorkerId
    from cascade.low.views import param_source
    from cascade.shm.server import entrypoint as shm_server
    from vlib import jobgen
    from vlib.realcluster import read_log
    for k in cfg.logging_config["loggers"]:
        cfg.logging_config["loggers"][k]["level"] = "CRITICAL"
    rng = random.Random(spec["seed"])
    tmp = spec["tmp"]
    os.makedirs(tmp, exist_ok=True)
    evlog = os.path.join(tmp, "events.log")
    os.environ["VERIF_EVLOG"] = evlog
    host = spec["host"]
    for s in glob.glob(f"/dev/shm/sCasc{host}*"):
        os.unlink(s)
    # ---- job: R consumer tasks c<j> with k_j inputs produced by never-run source tasks s<j>_<i> ------------------
    rounds = spec["rounds"]
    tasks, edges, order = {}, [], []
    src: dict = {}   # (round, input index) -> (producer task, output name): producers have 1-3 outputs, so that one output of a
    #                  task can be on the host (and announced) while a sibling output of the same task has not arrived yet
    for j, k in enumerate(rounds):
        groups: list[list[int]] = []
        for i in range(k):
            if groups and len(groups[-1]) < 3 and rng.random() < 0.5:
                groups[-1].append(i)
            else:
                groups.append([i])
        for g, members in enumerate(groups):
            sid = f"s{j}g{g}"
            tasks[sid] = {"outputs": [str(o) for o in range(len(members))], "static_ps": {}, "static_kw": {}, "needs_gpu": False}
            order.append(sid)
            for o, i in enumerate(members):
                src[(j, i)] = (sid, str(o))
        cid = f"c{j}"
        tasks[cid] = {"outputs": ["0"], "static_ps": {}, "static_kw": {}, "needs_gpu": False}
        order.append(cid)
        for i in range(k):
            sid, o = src[(j, i)]
            if i % 2 == 0:
                edges.append((sid, o, cid, None, i))
            else:
                edges.append((sid, o, cid, f"k{i}", None))
    js = {"tasks": tasks, "edges": edges, "ext": [], "order": order, "shape": "workerproto"}
    job = jobgen.build_job(js)
    ref = jobgen.reference_eval(js)
    shm_api.publish_client_port(spec["shm_port"])
    ctx = get_context("fork")
    shm_p = ctx.Process(target=shm_server, args=(spec["shm_port"], 16 * 1024 * 1024, cfg.logging_config, f"sCasc{host}"))
    shm_p.start()
    shm_client.ensure()
    w = WorkerId(host, "w0")
    lst = comms.Listener(spec["callback"])
    rc = RunnerContext(workerId=w, job=job, callback=spec["callback"], param_source=param_source(job.edges))
    wp = ctx.Process(target=worker_main, args=(rc, evlog))
    wp.start()
    res = {"violations": [], "stats": {"rounds": 0, "orders": 0, "starts": 0, "values_checked": 0, "commands_overtaking_notice": 0, "sibling_outputs_split_by_command": 0}}
    V = res["violations"]
    try:
        t0 = time.time()
        ready = False
        while time.time() - t0 < 20 and not ready:
            for m in lst.recv_messages(100):
                if isinstance(m, WorkerReady):
                    ready = True
        if not ready:
            return {"outcome": "harness-error", "error": "worker did not become ready"}
        waddr = worker_address(w)
        import zmq
        zctx = zmq.Context()
        wsock = zctx.socket(zmq.PUSH)      # one persistent connection: the harness must not lose (or reorder) its own messages
        wsock.setsockopt(zmq.LINGER, 10000)
        wsock.connect(waddr)

        def wsend(m):
            wsock.send(serde.ser_message(m))

        def put(ds, value):
            raw, deser = serde.ser_output(value, "Any")
            buf = shm_client.allocate(ds2shmid(ds), len(raw), deser, timeout_sec=5)
            buf.view()[: len(raw)] = raw
            buf.close()

        perms_seen = set()
        for j, k in enumerate(rounds):
            cid = f"c{j}"
            msgs = ["TS"] + [f"N{i}" for i in range(k)]
            pi = (spec.get("perm_index") or {}).get(str(j))
            if pi is not None:
                allp = list(itertools.permutations(msgs))
                perm = allp[pi % len(allp)]
            else:
                perm = tuple(rng.sample(msgs, len(msgs)))
            perms_seen.add((k, perm))
            if perm.index("TS") < len(perm) - 1:
                res["stats"]["commands_overtaking_notice"] += 1
            before = {src[(j, int(t[1:]))][0] for t in perm[: perm.index("TS")]}
            after = {src[(j, int(t[1:]))][0] for t in perm[perm.index("TS") + 1:]}
            if before & after:
                res["stats"]["sibling_outputs_split_by_command"] += 1
            extra_purge = rng.random() < 0.3
            n_before = len([e for e in read_log(evlog) if e[1] == "seq-start"])
            recv_before = len([e for e in read_log(evlog) if e[1] == "msg-recv"])
            n_sent = [0]
            _wsend = wsend

            def wsend_counted(m, _w=_wsend):
                n_sent[0] += 1
                _w(m)
            wsend_r = wsend_counted
            for token in perm:
                if token == "TS":
                    wsend_r(TaskSequence(worker=w, tasks=[cid], publish={DatasetId(cid, "0")}))
                else:
                    i = int(token[1:])
                    ds = DatasetId(*src[(j, i)])
                    put(ds, ref[src[(j, i)]])
                    wsend_r(DatasetPublished(origin=w, ds=ds, transmit_idx=None))
                    if rng.random() < 0.2:
                        wsend_r(DatasetPublished(origin=w, ds=ds, transmit_idx=None))  # duplicate notice
                if extra_purge and rng.random() < 0.5:
                    wsend_r(DatasetPurge(ds=DatasetId("unrelated", "0")))
                time.sleep(rng.choice([0, 0, 0.002, 0.01]))
            # ---- the sequence must start exactly once, with every input readable, and publish the right value -----------
            got_value = None
            deadline = time.time() + 90          # generous cap; what it cuts off is inconclusive, not a violation
            failure = None
            all_recv_at = None

            def worker_has_everything():
                return len([e for e in read_log(evlog) if e[1] == "msg-recv"]) - recv_before >= n_sent[0]
            while time.time() < deadline and got_value is None and failure is None:
                if all_recv_at is None and worker_has_everything():
                    all_recv_at = time.time()
                if all_recv_at is not None and time.time() - all_recv_at > 6 and not [e for e in read_log(evlog) if e[1] == "seq-start"][n_before:]:
                    break        # the worker loop has taken every message of the round off its socket and sits idle: logical verdict
                for m in lst.recv_messages(50):
                    if isinstance(m, DatasetPublished) and m.ds == DatasetId(cid, "0"):
                        buf = shm_client.get(ds2shmid(m.ds), timeout_sec=2)
                        got_value = serde.des_output(buf.view(), "Any", buf.deser_fun)
                        buf.close()
                    elif isinstance(m, TaskFailure):
                        failure = m
                if not wp.is_alive():
                    break
            starts = [e for e in read_log(evlog) if e[1] == "seq-start"][n_before:]
            res["stats"]["rounds"] += 1
            res["stats"]["starts"] += len(starts)
            wit = f"round {j}: {k} inputs, message order {list(perm)}"
            if failure is not None:
                V.append(["worker-task-failure", f"{wit}: {failure.detail[:200]}"])
                break
            if not wp.is_alive():
                V.append(["worker-process-died", f"{wit}: worker exited with {wp.exitcode} (e.g. 'double task sequence enqueued')"])
                break
            if len(starts) == 0:
                if all_recv_at is None:
                    return {"outcome": "harness-error", "error": f"{wit}: the worker had not taken all {n_sent[0]} messages off its socket after 90 s (machine overloaded?)"}
                V.append(["sequence-never-started", f"{wit}: the worker loop received all {n_sent[0]} messages of the round and did not start the sequence"])
                break
            if got_value is None and failure is None and wp.is_alive():
                return {"outcome": "harness-error", "error": f"{wit}: sequence started but nothing was published within 90 s (machine overloaded?)"}
            if len(starts) > 1:
                V.append(["sequence-started-twice", f"{wit}: {len(starts)} starts"])
                break
            unread = starts[0][3][1].split("=", 1)[1] if len(starts[0][3]) > 1 else ""
            if unread:
                V.append(["started-before-inputs-arrived", f"{wit}: at start these inputs were not readable on the host: {unread}"])
                break
            res["stats"]["values_checked"] += 1
            if got_value != ref[(cid, "0")]:
                V.append(["worker-output-differs", f"{wit}: published {got_value!r:.100}, expected {ref[(cid, '0')]!r:.100}"])
                break
        res["stats"]["orders"] = len(perms_seen)
        res["outcome"] = "ok"
        try:
            wsend(WorkerShutdown())
        except Exception:  # noqa: BLE001
            pass
        return res
    finally:
        try:
            wp.join(2)
            if wp.is_alive():
                wp.kill()
            shm_client.shutdown()
            shm_p.join(2)
        except Exception:  # noqa: BLE001
            pass
        if shm_p.is_alive():
            shm_p.kill()


def main():
    spec = json.load(open(sys.argv[1]))
    try:
        res = run(spec)
    except Exception:  # noqa: BLE001
        res = {"outcome": "harness-error", "error": traceback.format_exc()[-1500:]}
    sys.stdout.write("RESULT " + json.dumps(res) + "\n")
    sys.stdout.flush()
    import psutil
    import shutil
    try:
        for p in psutil.Process(os.getpid()).children(recursive=True):
            try:
                p.kill()
            except Exception:  # noqa: BLE001
                pass
    finally:
        for s in glob.glob(f"/dev/shm/sCasc{spec['host']}*") + glob.glob(f"/tmp/{spec['host']}.w*.socket"):
            try:
                os.unlink(s)
            except OSError:
                pass
        shutil.rmtree(spec["tmp"], ignore_errors=True)
    os._exit(0)


if __name__ == "__main__":
    main()
