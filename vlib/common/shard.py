"""Entry point of one shard subprocess: python -m vlib.common.shard <pid> <spec.json> <out.json>"""

import faulthandler
import importlib
import json
import os
import sys
import traceback

from vlib.common.core import Collector, dump_json


def main() -> int:
    pid, spec_path, out_path = sys.argv[1:4]
    faulthandler.enable()
    with open(spec_path) as f:
        spec = json.load(f)
    # a shard never outlives its driver (a killed driver cannot fire its watchdog) nor its own hard deadline
    import threading
    import time
    ppid0, t0, hard = os.getppid(), time.time(), float(spec.get("timeout_s", 1500)) + 120

    def lifeguard():
        while True:
            time.sleep(2)
            if os.getppid() != ppid0 or time.time() - t0 > hard:
                try:
                    import signal
                    os.killpg(os.getpgid(0), signal.SIGKILL) if os.getpgid(0) == os.getpid() else None
                finally:
                    os._exit(3)
    threading.Thread(target=lifeguard, daemon=True, name="verif-lifeguard").start()
    mod = importlib.import_module(f"vlib.checks.{pid.lower()}")
    col = Collector(pid, spec)
    try:
        mod.run_shard(spec, col)
    except Exception:  # noqa: BLE001 -- a harness crash is inconclusive, never 'held'
        col.not_reached("shard crashed: " + traceback.format_exc()[-1800:])
    dump_json(out_path, col.summary())
    sys.stdout.flush()
    sys.stderr.flush()
    os._exit(0)  # do not let stray non-daemon threads / atexit handlers of the SUT hold the shard


if __name__ == "__main__":
    sys.exit(main())
