"""C15 -- array backends agree with NumPy; 'batchable' functions really are batchable (engine E6 backend oracles)."""

from __future__ import annotations

import itertools

from vlib.common.core import Collector, case_rng, digest, guarded

ID = "C15"
LEVEL = "exploration"
MANIFEST = dict(
    engine="E6-fluentshadow", engine_path="vlib/checks/c15.py",
    kind="generated arrays (ndarray / DataArray / Dataset) through earthkit.workflows.backends.<op> against the NumPy oracle; exhaustive batch partitions",
    technique="runtime differential monitor: every backend call on generated arrays (axes counted from the front and, in a third of the cases, from the end) is compared with np.<op> on the stacked data (array-API and xarray backends, and with each other); for every function carrying the batchable marker all partitions of 2..6 arguments into consecutive batches are enumerated and f(f(b1),..,f(bk)) compared with f(all)",
    text="Held = every generated (op, arrays, axis/dim, indices) case agreed with NumPy on both backends and every marked function passed every partition tried; unmarked functions are probed for counter-examples only as evidence.",
    note="dtype identity, attrs and coordinate metadata are not compared; float tolerance rtol 1e-9 (float64) / 1e-4 (float32); a batch of one argument is passed through un-reduced, as fluent.reduce does.",
)
RULE = (
    "case = (op, 1-6 arrays of shape (), (n,), (n,m), (n,m,k) with n,m,k<=4, dtype int64/float64/float32/bool where NumPy defines the op, "
    "container ndarray | DataArray (with/without coords) | Dataset (1-2 variables), axis/dim/indices); batchability cases enumerate every "
    "partition of the argument list into >=2 consecutive batches; non-trivial = array rank>=1; distinct = digest(op, container, dtype, shapes, axis, partition)"
)
ASSUMPTIONS = ["NumPy is the oracle", "all arguments of one call share shape (or are broadcastable for stack), as the backends require"]
REQUIRED_COUNTERS = ["reduce_checked", "twoarg_checked", "take_checked", "stack_checked", "concat_checked", "batch_partitions_checked",
                     "marked_functions_seen", "xarray_checked", "arrayapi_checked", "cross_backend_checked"]

REDUCTIONS = ["sum", "prod", "min", "max", "mean", "std", "var"]
TWOARG = {"add": "add", "subtract": "subtract", "multiply": "multiply", "divide": "divide", "pow": "power"}
DIMS = ["x", "y", "z"]


def gen_array(rng, np, shape, dtype, positive=False):
    n = int(np.prod(shape)) if shape else 1
    if dtype == "bool":
        vals = [rng.random() < 0.5 for _ in range(n)]
    elif dtype == "int64":
        vals = [rng.randint(1 if positive else -4, 5) for _ in range(n)]
    else:
        vals = [rng.choice([0.5, 1.0, 1.5, 2.0, 2.5, 3.0, 0.25]) * (1 if positive or rng.random() < 0.7 else -1) for _ in range(n)]
    return np.array(vals, dtype=dtype).reshape(shape)


def wrap(np, xr, arr, container, rng_coords, nvars=1, second=None):
    if container == "ndarray":
        return arr
    dims = DIMS[: arr.ndim]
    coords = {d: list(range(10, 10 + arr.shape[i])) for i, d in enumerate(dims)} if rng_coords else None
    da = xr.DataArray(arr, dims=dims, coords=coords)
    if container == "dataarray":
        return da
    d = {"v0": da}
    if nvars == 2:
        d["v1"] = xr.DataArray(second if second is not None else arr * 2, dims=dims, coords=coords)
    return xr.Dataset(d)


def values_of(np, xr, r):
    """Returns list of ndarrays (one per variable)."""
    if isinstance(r, xr.Dataset):
        return [np.asarray(r[v].values) for v in sorted(r.data_vars)]
    if isinstance(r, xr.DataArray):
        return [np.asarray(r.values)]
    return [np.asarray(r)]


def close(np, a, b, dtype):
    a, b = np.asarray(a), np.asarray(b)
    if a.shape != b.shape:
        return False
    if a.dtype == bool or b.dtype == bool or dtype in ("int64", "bool"):
        try:
            return bool(np.allclose(a.astype("float64"), b.astype("float64"), rtol=1e-12, atol=1e-12, equal_nan=True))
        except Exception:  # noqa: BLE001
            return False
    rtol = 1e-4 if dtype == "float32" else 1e-9
    return bool(np.allclose(a.astype("float64"), b.astype("float64"), rtol=rtol, atol=rtol, equal_nan=True))


def partitions(k):
    """All ways to cut range(k) into >=2 consecutive non-empty batches."""
    for cuts in range(1, k):
        for pos in itertools.combinations(range(1, k), cuts):
            b = [0, *pos, k]
            yield [(b[i], b[i + 1]) for i in range(len(b) - 1)]


def one_case(col: Collector, rng, index: int):
    import numpy as np
    import xarray as xr
    from earthkit.workflows import backends
    from earthkit.workflows.backends import Backend

    kind = rng.choice(["reduce", "reduce", "twoarg", "take", "stack", "concat", "batch", "batch", "batch"])
    container = rng.choice(["ndarray", "ndarray", "dataarray", "dataarray", "dataset"])
    coords = rng.random() < 0.5
    nvars = rng.choice([1, 2])
    shape = rng.choice([(), (rng.randint(1, 4),), (rng.randint(1, 4), rng.randint(1, 4)), (rng.randint(1, 4), rng.randint(1, 4), rng.randint(1, 4))])
    if container != "ndarray" and shape == () and kind in ("take", "concat"):
        shape = (2,)
    bk = "arrayapi" if container == "ndarray" else "xarray"
    W = lambda a, second=None: wrap(np, xr, a, container, coords, nvars, second)  # noqa: E731

    def report(op, what, detail, extra=None):
        col.violation(f"{bk}:{op}:{what}", detail, {"op": op, "container": container, "shape": list(shape), **(extra or {})}, index)

    def compare(op, got, exp_list, dtype, extra=None):
        try:
            gv = values_of(np, xr, got)
        except Exception as e:  # noqa: BLE001
            report(op, "unreadable-result", repr(e), extra)
            return False
        if len(gv) != len(exp_list):
            report(op, "variable-count", f"{len(gv)} vs {len(exp_list)}", extra)
            return False
        for g, e in zip(gv, exp_list):
            if not close(np, g, e, dtype):
                report(op, "differs-from-numpy", f"got {np.asarray(g).tolist()!r:.200} expected {np.asarray(e).tolist()!r:.200}", extra)
                return False
        return True

    def expl(fn, arrs_per_var):
        return [fn(a) for a in arrs_per_var]

    def variables(raws):
        """per-variable list of raw arrays for Dataset containers (v1 = 2*v0 unless given)."""
        if container == "dataset" and nvars == 2:
            return [raws, [r * 2 if r.dtype != bool else r for r in raws]]
        return [raws]

    def Wds(r):
        if container == "dataset" and nvars == 2:
            return W(r, second=(r * 2 if r.dtype != bool else r))
        return W(r)

    col.count(f"{bk}_checked")

    if kind == "reduce":
        op = rng.choice(REDUCTIONS)
        dtype = rng.choice(["int64", "float64", "float32", "bool"])
        k = rng.randint(1, 6)
        if k == 1 and shape == ():
            shape = (3,)
        raws = [gen_array(rng, np, shape, dtype) for _ in range(k)]
        args = [Wds(r) for r in raws]
        f = getattr(backends, op)
        npop = getattr(np, op)
        extra = {"k": k, "dtype": dtype}
        try:
            if k > 1:
                got = f(*args)
                exp = [npop(np.stack(v), axis=0) for v in variables(raws)]
                ax = "multi"
            else:
                ax = rng.randrange(len(shape))
                ax_arg = ax - len(shape) if (bk == "arrayapi" and rng.random() < 0.3) else ax    # NumPy's negative axes are axes too
                if bk == "arrayapi" and rng.random() < 0.1:
                    ax_arg = None        # reduce over everything
                    col.count("axis_none_cases")
                if ax_arg is not None and ax_arg < 0:
                    col.count("negative_axis_cases")
                got = f(args[0], axis=ax_arg) if bk == "arrayapi" else f(args[0], dim=DIMS[ax])
                exp = [npop(v[0], axis=ax_arg) for v in variables(raws)]
        except Exception as e:  # noqa: BLE001
            report(op, f"raises-{type(e).__name__}", f"{e!r:.200}", extra)
            ax = "raised"
        else:
            compare(op, got, exp, dtype, extra)
            col.count("reduce_checked")
        shp = ("reduce", op, container, dtype, shape, k, ax)

    elif kind == "twoarg":
        op = rng.choice(list(TWOARG))
        dtype = rng.choice(["int64", "float64", "float32"] + (["bool"] if op in ("add", "multiply") else []))
        a = gen_array(rng, np, shape, dtype, positive=op in ("pow", "divide"))
        b = gen_array(rng, np, shape, dtype, positive=op in ("pow", "divide"))
        nested = rng.random() < 0.3
        extra = {"dtype": dtype, "nested": nested}
        try:
            got = getattr(backends, op)([Wds(a), Wds(b)]) if nested else getattr(backends, op)(Wds(a), Wds(b))
            exp = [getattr(np, TWOARG[op])(va, vb) for (va, vb) in ([(a, b)] + ([(a * 2 if a.dtype != bool else a, b * 2 if b.dtype != bool else b)] if container == "dataset" and nvars == 2 else []))]
        except Exception as e:  # noqa: BLE001
            report(op, f"raises-{type(e).__name__}", f"{e!r:.200}", extra)
        else:
            compare(op, got, exp, dtype, extra)
            col.count("twoarg_checked")
        shp = ("twoarg", op, container, dtype, shape, nested)

    elif kind == "take":
        if shape == ():
            shape = (3,)
        dtype = rng.choice(["int64", "float64"])
        a = gen_array(rng, np, shape, dtype)
        ax = rng.randrange(len(shape))
        if rng.random() < 0.5:
            idx = rng.randrange(shape[ax])
        else:
            idx = [rng.randrange(shape[ax]) for _ in range(rng.randint(1, 3))]
            if container != "ndarray":
                idx = sorted(set(idx)) if coords else idx
        dim_arg = ax if (bk == "arrayapi" or rng.random() < 0.5) else DIMS[ax]
        if isinstance(dim_arg, int) and rng.random() < 0.3:
            dim_arg = ax - len(shape)     # the same axis, counted from the end
            col.count("negative_axis_cases")
        extra = {"axis": ax, "indices": idx, "dim": dim_arg}
        try:
            got = backends.take(Wds(a), idx, dim=dim_arg)
            exp = [np.take(v[0], idx, axis=ax) for v in variables([a])]
        except Exception as e:  # noqa: BLE001
            report("take", f"raises-{type(e).__name__}", f"{e!r:.200}", extra)
        else:
            compare("take", got, exp, dtype, extra)
            col.count("take_checked")
        shp = ("take", container, shape, ax, isinstance(idx, int), isinstance(dim_arg, int), isinstance(dim_arg, int) and dim_arg < 0)

    elif kind == "stack":
        dtype = rng.choice(["int64", "float64"])
        k = rng.randint(1, 5)
        raws = [gen_array(rng, np, shape, dtype) for _ in range(k)]
        mixed = bk == "arrayapi" and len(shape) >= 1 and k >= 2 and rng.random() < 0.25
        if mixed:
            # arguments of different but broadcastable shapes and of different element types: the backend stacks what
            # np.broadcast_arrays gives, in the promoted type
            raws = []
            for j in range(k):
                shp = tuple(1 if (rng.random() < 0.4 and d > 1) else d for d in shape)
                dt = rng.choice(["int8", "int64", "float32", "float64", "int64"])
                raws.append(gen_array(rng, np, shp, "float64" if dt.startswith("float") else "int64").astype(dt) * (0.5 if dt.startswith("float") else 1))
            col.count("stack_mixed_shape_dtype_cases")
        ax = rng.randrange(len(shape) + 1)
        ax_arg = ax - (len(shape) + 1) if rng.random() < 0.3 else ax
        if ax_arg < 0:
            col.count("negative_axis_cases")
        extra = {"k": k, "axis": ax_arg}
        try:
            if bk == "arrayapi":
                got = backends.stack(*raws, axis=ax_arg)
            else:
                got = backends.stack(*[Wds(r) for r in raws], dim="new", axis=ax_arg)
            exp = [np.stack(np.broadcast_arrays(*v) if mixed else v, axis=ax_arg) for v in variables(raws)]
            if mixed and hasattr(got, "dtype") and got.dtype != exp[0].dtype:
                report("stack", "dtype-differs-from-numpy", f"result dtype {got.dtype}, NumPy gives {exp[0].dtype} for argument dtypes {[str(r.dtype) for r in raws]}", extra)
        except Exception as e:  # noqa: BLE001
            report("stack", f"raises-{type(e).__name__}", f"{e!r:.200}", extra)
        else:
            if compare("stack", got, exp, dtype, extra) and isinstance(got, xr.DataArray) and list(got.dims).index("new") != ax:
                report("stack", "new-dim-at-wrong-axis", f"dims {got.dims}, axis {ax}", extra)
            col.count("stack_checked")
        shp = ("stack", container, shape, k, ax_arg)

    elif kind == "concat":
        if shape == ():
            shape = (2,)
        dtype = rng.choice(["int64", "float64"])
        k = rng.randint(1, 5)
        ax = rng.randrange(len(shape))
        raws = []
        for _ in range(k):
            s = list(shape)
            if container == "ndarray" or not coords:
                s[ax] = rng.randint(1, 3)
            raws.append(gen_array(rng, np, tuple(s), dtype))
        ax_arg = ax - len(shape) if (bk == "arrayapi" and rng.random() < 0.3) else ax
        if bk == "arrayapi" and rng.random() < 0.12:
            ax_arg = None            # NumPy and the array-API standard: flatten every input, then join
            col.count("axis_none_cases")
        if ax_arg is not None and ax_arg < 0:
            col.count("negative_axis_cases")
        extra = {"k": k, "axis": ax_arg}
        try:
            if bk == "arrayapi":
                got = backends.concat(*raws, axis=ax_arg)
            else:
                got = backends.concat(*[Wds(r) for r in raws], dim=DIMS[ax])
            exp = [np.concatenate(v, axis=ax_arg if bk == "arrayapi" else ax) for v in variables(raws)]
        except Exception as e:  # noqa: BLE001
            report("concat", f"raises-{type(e).__name__}", f"{e!r:.200}", extra)
        else:
            compare("concat", got, exp, dtype, extra)
            col.count("concat_checked")
        shp = ("concat", container, shape, k, ax_arg)

    else:  # batchability
        names = sorted(n for n in vars(Backend) if callable(getattr(Backend, n)) and not n.startswith("_"))
        marked = [n for n in names if getattr(getattr(Backend, n), "batchable", False)]
        col.count("marked_functions_seen", len(marked))
        probe_unmarked = rng.random() < 0.25
        cands = [n for n in ("mean", "std") if n not in marked] if probe_unmarked else marked
        if not cands:
            col.case(shape=("batch", "nothing"), nontrivial=False)
            return
        op = rng.choice(cands)
        dtype = rng.choice(["int64", "float64"])
        k = rng.randint(2, 6)
        f = getattr(backends, op)
        if shape == () and op in ("concat",):
            shape = (2,)
        ax = rng.randrange(len(shape)) if shape else 0
        raws = []
        for _ in range(k):
            s = list(shape)
            if op == "concat" and (container == "ndarray" or not coords):
                s[ax] = rng.randint(1, 3)
            raws.append(gen_array(rng, np, tuple(s), dtype))
        args = [Wds(r) for r in raws]
        kw = {}
        if op == "concat":
            kw = {"axis": ax} if bk == "arrayapi" else {"dim": DIMS[ax]}
        elif op == "stack":
            kw = {} if bk == "arrayapi" else {"dim": "new"}
        try:
            full = values_of(np, xr, f(*args, **kw))
        except Exception as e:  # noqa: BLE001
            report(op, f"raises-{type(e).__name__}", f"{e!r:.200}", {"k": k, "dtype": dtype})
            col.case(shape=("batch", op, container, "raised"), nontrivial=True)
            return
        bad = None
        nparts = 0
        for part in partitions(k):
            nparts += 1
            try:
                inner = [args[a] if b - a == 1 else f(*args[a:b], **kw) for (a, b) in part]
                outer = values_of(np, xr, f(*inner, **kw))
            except Exception as e:  # noqa: BLE001
                bad = (part, f"raises {e!r:.120}")
                break
            if len(outer) != len(full) or not all(close(np, o, fl, dtype) for o, fl in zip(outer, full)):
                bad = (part, f"batched {outer[0].tolist()!r:.120} != direct {full[0].tolist()!r:.120}")
                break
        col.count("batch_partitions_checked", nparts)
        if op in marked:
            col.count(f"batchable_checked:{op}")
            if bad:
                report(op, "marked-batchable-but-not", f"partition {bad[0]}: {bad[1]}", {"k": k, "dtype": dtype, "partition": [list(p) for p in bad[0]]})
        elif bad:
            col.observe(f"unmarked_{op}_counterexample_found")
        shp = ("batch", op, container, dtype, shape, k, op in marked)

    # cross-backend agreement on a reduction
    if kind == "reduce" and container == "ndarray" and shape != ():
        try:
            op2 = rng.choice(REDUCTIONS)
            k = rng.randint(2, 4)
            raws = [gen_array(rng, np, shape, "float64") for _ in range(k)]
            r1 = np.asarray(getattr(backends, op2)(*raws))
            r2 = getattr(backends, op2)(*[xr.DataArray(r, dims=DIMS[: r.ndim]) for r in raws]).values
            col.count("cross_backend_checked")
            if not close(np, r1, r2, "float64"):
                col.violation(f"cross-backend:{op2}:disagree", f"arrayapi {r1.tolist()!r:.120} xarray {r2.tolist()!r:.120}", None, index)
        except Exception as e:  # noqa: BLE001
            col.violation("cross-backend:raises", f"{e!r:.200}", None, index)

    col.case(shape=digest(shp), nontrivial=len(shape) >= 1, sample={"case": repr(shp)})


def run_shard(spec, col: Collector):
    import warnings
    warnings.simplefilter("ignore")
    seed, shard = spec["seed"], spec["shard"]
    for i in range(spec["n"]):
        if col.out_of_time():
            break
        if col.want(i):
            guarded(col, i, one_case, col, case_rng(seed, shard, i), i)


def plan(tier, seed, scale=1.0):
    q = tier == "quick"
    n, copies = (700, 8) if q else (70000, 16)
    return [dict(shard=f"b{c}", n=int(n * scale), budget_s=50 if q else 800, timeout_s=150 if q else 1300,
                 hash_seed=(seed * 23 + c) % 4294967295) for c in range(copies)]
