"""C06 -- acknowledged messaging delivers each message exactly once despite loss or duplicates (engine E3, NetSim)."""

from __future__ import annotations

import pickle
from collections import Counter

from vlib.common.core import Collector, case_rng, digest, guarded

ID = "C06"
LEVEL = "fault_enumeration"
MANIFEST = dict(
    engine="E3-netsim", engine_path="vlib/netsim.py",
    kind="real Bridge (through its real registration handshake) and real Executor.recv_loop over an in-memory zmq shim with a virtual clock; per-frame drop / duplicate / hold plans on data frames and acknowledgements; offline exactly-once checker over the recorded send/deliver history",
    technique="offline history checker at the boundary of the acknowledged layer: call events = ReliableSender.send on both endpoints, delivery events = messages returned by the peer's Listener.recv_messages; every message carries a unique dataset id; under seeded per-frame fault plans (finite loss, duplication, delay, partition, and a busy-link class in which both inbound links receive fresh traffic for longer than the whole retry budget so that no blocking poll ever times out, in part of them with ONE message whose every transmission is dropped while the rest gets through) each history is driven to quiescence through the real loops and checked: delivered exactly once, or at most once and the sender raised within the retry budget; the real Listener is also fed streams of both acknowledged frame shapes ([Syn, message] and the [Syn, header, value] dataset payloads of send_data) from several senders with every transmission repeated 1-3 times and interleaved: each distinct (sender, idx) must be handed over exactly once and every copy acknowledged; malformed frame lists fed to Listener._recv_one must raise",
    text="Held = in every history explored every message was delivered exactly once (finite-loss plans, no sender gave up) or at most once with a bounded raise (partition plans); no duplicate delivery, no silent loss, no foreign delivery; every malformed frame list was rejected.",
    note="NetSim replaces zmq and time inside cascade.executor.comms (and time in bridge); loops run one iteration at a time, single-threaded; faults apply only to frames of the acknowledged layer and to Acks; a second tier (vlib/lossyzmq.py) runs the same endpoints over real zmq TCP sockets behind a dropping / duplicating / delaying proxy, one history per process, in both tiers; a give-up in real time is inconclusive for that history.",
)
RULE = (
    "case = one two-endpoint history: 1-30 messages per direction (controller: task_sequence / purge to the executor, transmit / fetch to the data listener; executor: publications "
    "injected locally + its own heartbeat registrations), random interleaving of sends, loop iterations and clock advances, under one fault plan: none, finite loss p in {0.1,0.25,0.5} of data "
    "and/or ack frames, duplication, holds up to 3 s, partition of one direction from a random time; plus malformed-frame probes; non-trivial = >=1 fault applied and >=2 messages; "
    "distinct = digest(plan class, message kinds, fault decisions)"
)
ASSUMPTIONS = ["fair stepping: both loops keep iterating until quiescence", "finite-loss plans never fail more than 12 consecutive transmissions of one message"]
REQUIRED_COUNTERS = ["lossyzmq_histories_checked", "histories", "messages_sent_c2e", "messages_sent_e2c", "messages_sent_c2d", "frames_dropped", "frames_duplicated", "frames_held", "retries_observed",
                     "histories_partition", "histories_busy", "sender_raises_observed", "malformed_probes", "receiver_streams", "receiver_duplicate_frames", "receiver_payload_messages"]

CMD_TYPES = ("TaskSequence", "DatasetPurge", "DatasetTransmitCommand")
EVT_TYPES = ("DatasetPublished", "ExecutorRegistration", "ExecutorFailure", "TaskFailure", "ExecutorExit")


def key(m):
    return (type(m).__name__, repr(m))


def one_history(col: Collector, rng, index: int):
    import cascade.executor.comms as comms
    from cascade.executor.msg import DatasetPublished, TaskSequence
    from cascade.low.core import DatasetId, WorkerId
    from vlib import netsim

    plan_class = rng.choice(["none", "loss", "loss", "loss-acks", "dup", "hold", "mixed", "mixed", "partition-c2e", "partition-e2c", "partition-acks", "busy-loss"])
    w = netsim.World(rng)
    try:
        net = w.net
        grace_ms = 800
        p_loss = rng.choice([0.1, 0.25, 0.5])
        fails: dict = {}
        decisions = []
        part_at = [None]
        first_affected = {}

        def plan(kind, address, m0):
            # direction of the *message* this frame belongs to
            if kind == "data":
                d = "e2c" if address == w.caddr else "c2x"
                ident = (d, m0.idx)
            else:
                d = "c2x" if address == w.caddr else "e2c"   # an ack sent to the controller confirms a controller message
                ident = (d, m0.idx)
            r = rng.random()
            out = [0]
            if plan_class.startswith("partition") and part_at[0] is not None and w.clock.ns >= part_at[0]:
                if (plan_class == "partition-c2e" and kind == "data" and d == "c2x") or \
                   (plan_class == "partition-e2c" and kind == "data" and d == "e2c") or \
                   (plan_class == "partition-acks" and kind == "ack" and d == "c2x"):
                    first_affected.setdefault(ident, w.clock.ns)
                    decisions.append("P")
                    return []
                return [0]
            lossy = plan_class in ("loss", "mixed", "busy-loss") or (plan_class == "loss-acks" and kind == "ack")
            if lossy and r < p_loss and fails.get(ident, 0) < 12:
                fails[ident] = fails.get(ident, 0) + 1
                decisions.append("d")
                return []
            if kind == "ack":
                fails[ident] = 0
            if plan_class in ("dup", "mixed") and r > 0.8:
                out = [0] * rng.randint(2, 3)
                decisions.append("2")
            if plan_class in ("hold", "mixed") and rng.random() < 0.3:
                out = [rng.choice([100, 900, 1700, 3000]) for _ in out]
                decisions.append("h")
            return out

        net.plan = plan
        nc, ne = rng.randint(1, 30), rng.randint(1, 30)
        if plan_class.startswith("partition"):
            part_at[0] = w.clock.ns + rng.randint(0, 5000) * 10**6
        todo = [("c", i) for i in range(nc)] + [("e", i) for i in range(ne)]
        rng.shuffle(todo)
        kinds = []
        workers = list(w.ex.workers)
        dl = comms.Listener(w.ex.daddress)
        w._wrap_listener(dl, "c2d")
        w.delivered.setdefault("c2d", [])

        def drain_dl():
            for _ in range(500):
                dl.recv_messages(0)
                if not net.ready(w.ex.daddress):
                    break

        def step_some():
            # fair stepping: a round runs one iteration of every endpoint (random order), so that within one resend
            # grace period every receiver gets a chance to read and acknowledge
            for _ in range(rng.randint(0, 2)):
                order = ["c", "e", "d"]
                rng.shuffle(order)
                for o in order:
                    if o == "c":
                        w.step_controller()
                    elif o == "e":
                        w.step_executor()
                    else:
                        drain_dl()

        for who, i in todo:
            if who == "c" and w.raised["c2e"] is None:
                k = rng.choice(["task_sequence", "purge", "transmit", "fetch"])
                ds = DatasetId(f"c{i}", "0")
                kinds.append(k)
                try:
                    if k == "task_sequence":
                        w.bridge.task_sequence(TaskSequence(worker=rng.choice(workers), tasks=[f"c{i}"], publish={ds}))
                    elif k == "purge":
                        w.bridge.purge("h0", ds)
                    elif k == "transmit":
                        w.bridge.transmit(ds, "h0", "h0")
                    else:
                        w.bridge.fetch(ds, "h0")
                except Exception as e:  # noqa: BLE001
                    w.raised["c2e"] = (repr(e), w.clock.ns)
            elif who == "e" and not w.ex.terminating:
                kinds.append("publish")
                w.inject_local(DatasetPublished(origin=WorkerId("h0", "w0"), ds=DatasetId(f"e{i}", "0"), transmit_idx=None))
            step_some()
        if plan_class == "busy-loss":
            # both inbound links stay busy for longer than the whole retry budget: every 250 virtual ms (less than the resend
            # grace) each endpoint receives fresh traffic, so no blocking poll of either loop ever times out. Retries must be
            # driven by the loop, not by an idle poll: at the end of the phase no message may have gone un-retransmitted for a
            # whole budget while its sender neither raised nor stopped.
            from cascade.executor.msg import DatasetPublished as DP
            budget_ns = (comms.max_retries_per_message + 3) * grace_ms * 10**6
            rounds = int(budget_ns / (250 * 10**6)) + 20
            # in some of these histories ONE message is undeliverable (every transmission of it is dropped) while everything else gets
            # through and is acknowledged: the sender must still give up on it within its retry budget, not retry for ever
            blackhole = [None]
            if rng.random() < 0.4:
                inner_plan = net.plan

                def plan_bh(kind, address, m0):
                    if kind == "data" and address != w.caddr and blackhole[0] is None and getattr(m0, "idx", None) is not None and w.clock.ns > 0 and bh_armed[0]:
                        blackhole[0] = m0.idx
                    if kind == "data" and address != w.caddr and blackhole[0] is not None and m0.idx == blackhole[0]:
                        decisions.append("B")
                        return []
                    return inner_plan(kind, address, m0)
                bh_armed = [False]
                net.plan = plan_bh
            for r_ in range(rounds):
                if blackhole[0] is None and "bh_armed" in dir() and r_ == 2:
                    bh_armed[0] = True
                if w.raised["c2e"] is not None or w.ex.terminating:
                    break
                w.inject_local(DP(origin=WorkerId("h0", "w0"), ds=DatasetId(f"busy-e{r_}", "0"), transmit_idx=None))
                try:
                    w.bridge.purge("h0", DatasetId(f"busy-c{r_}", "0"))
                except Exception as e:  # noqa: BLE001
                    w.raised["c2e"] = (repr(e), w.clock.ns)
                w.step_executor()
                w.step_controller()
                drain_dl()
                w.clock.ns += 250 * 10**6
                col.count("busy_rounds")
            col.count("histories_busy")
            wit_b = {"plan": plan_class, "p_loss": p_loss, "net_log": net.log[-60:], "stats": dict(net.stats)}
            if blackhole[0] is not None:
                col.count("histories_with_one_undeliverable_message")
                if w.raised["c2e"] is None and blackhole[0] in w.bridge.sender.inflight:
                    r = w.bridge.sender.inflight[blackhole[0]]
                    col.violation("undeliverable-message-retried-without-bound:controller->executor",
                                  f"every transmission of message #{blackhole[0]} ({r.clazz}) was dropped for {rounds * 0.25:.0f} virtual s (retry budget {comms.max_retries_per_message} x {grace_ms} ms) while other messages to the "
                                  f"same host were delivered and acknowledged: the sender is still retrying (retries left {r.remaining}) and has not raised", wit_b, index)
                    return
                if w.raised["c2e"] is not None:
                    col.count("sender_raises_observed")
                    return      # gave up on the undeliverable message, as it must; the history ends here
            for direction, sender, gone in (("controller->executor", w.bridge.sender, w.raised["c2e"] is not None), ("executor->controller", w.ex.sender, w.ex.terminating or w.raised["e2c"] is not None)):
                stale = [(i, r) for i, r in sender.inflight.items() if w.clock.ns - r.at > budget_ns]
                if stale and not gone:
                    i, r = stale[0]
                    col.violation(f"retry-starved-while-inbound-link-busy:{direction}",
                                  f"message #{i} ({r.clazz}) was last transmitted {(w.clock.ns - r.at) / 1e9:.0f} virtual s ago (budget {budget_ns / 1e9:.0f} s), retries left {r.remaining}: "
                                  f"its sender's loop iterated {rounds} times receiving traffic, never re-sent it and never raised", wit_b, index)
                    return
        # ---- drive to quiescence -----------------------------------------------------------------------
        quiescent = False
        for it in range(600):
            w.step_controller()
            w.step_executor()
            drain_dl()
            c_done = w.raised["c2e"] is not None or not w.bridge.sender.inflight
            e_done = w.ex.terminating or not w.ex.sender.inflight
            flying = net.in_flight([w.caddr, w.eaddr, w.ex.daddress])
            if c_done and e_done and (flying == 0 or (w.raised["c2e"] is not None and w.ex.terminating)):
                quiescent = True
                break
            if w.raised["c2e"] is not None and w.ex.terminating:
                quiescent = True
                break
        retries = sum(1 for e in net.log if e[0] == "data") - (len(w.sent["c2e"]) + len(w.sent["e2c"]))
        col.count("histories")
        col.count("messages_sent_c2e", sum(1 for (m, _t) in w.sent["c2e"] if type(m).__name__ in ("TaskSequence", "DatasetPurge")))
        col.count("messages_sent_c2d", sum(1 for (m, _t) in w.sent["c2e"] if type(m).__name__ == "DatasetTransmitCommand"))
        col.count("messages_sent_e2c", len(w.sent["e2c"]))
        col.count("frames_dropped", net.stats["dropped"])
        col.count("frames_duplicated", net.stats["duplicated"])
        col.count("frames_held", net.stats["held"])
        col.count("retries_observed", max(0, retries))
        if plan_class.startswith("partition"):
            col.count("histories_partition")
        faults = net.stats["dropped"] + net.stats["duplicated"] + net.stats["held"]
        wit = {"plan": plan_class, "p_loss": p_loss, "messages": kinds[:40], "net_log": net.log[-80:], "raised": {k: (v[0][:200] if v else None) for k, v in w.raised.items()},
               "stats": dict(net.stats)}
        col.case(shape=digest(plan_class, kinds, "".join(decisions)[:300]), nontrivial=faults >= 1 and (nc + ne) >= 2, sample=wit)
        if not quiescent:
            # bounded progress: a message still unacknowledged long after the whole retry budget (in virtual time, with both loops
            # iterating fairly) whose sender neither retransmitted nor raised is a silent loss
            budget_ns = (comms.max_retries_per_message + 3) * grace_ms * 10**6
            for direction, sender, raised in (("controller->executor", w.bridge.sender, w.raised["c2e"]), ("executor->controller", w.ex.sender, w.raised["e2c"])):
                stale = [(i, r) for i, r in sender.inflight.items() if w.clock.ns - r.at > budget_ns]
                if stale and raised is None:
                    i, r = stale[0]
                    col.violation(f"silent-loss:never-retried-nor-reported:{direction}",
                                  f"message #{i} ({r.clazz}) was last transmitted {(w.clock.ns - r.at) / 1e9:.0f} virtual s ago, is still unacknowledged, retries left {r.remaining}; "
                                  f"the sender's loop kept iterating but neither re-sent nor raised (plan {plan_class})", wit, index)
                    return
            if plan_class.startswith("partition") and first_affected:
                # frames of one direction have been dropped for far longer than the whole retry budget (both loops iterating
                # fairly in virtual time): "the sender raises after a bounded number of retries" is refuted
                side = "c2e" if plan_class in ("partition-c2e", "partition-acks") else "e2c"
                snd = w.bridge.sender if side == "c2e" else w.ex.sender
                affected = [t for (d, i_), t in first_affected.items() if (d == "c2x") == (side == "c2e") and i_ in snd.inflight]
                if affected and w.raised[side] is None and w.clock.ns - min(affected) > 3 * budget_ns:
                    col.violation(f"partition-never-reported:{side}", f"{(w.clock.ns - min(affected)) / 1e9:.0f} virtual s after the first dropped transmission the sender is still retrying and has not raised", wit, index)
                    return
            col.observe("history_not_quiescent_within_step_cap")
            col.not_reached("a history did not reach quiescence within 600 loop iterations")
            return
        # ---- offline oracle --------------------------------------------------------------------------------
        finite = not plan_class.startswith("partition")
        for direction, sent_list, deliv_lists, types, raised in (
            ("controller->executor", [m for (m, _t) in w.sent["c2e"]], w.delivered["c2e"] + w.delivered["c2d"], CMD_TYPES + ("ExecutorShutdown",), w.raised["c2e"]),
            ("executor->controller", [m for (m, _t) in w.sent["e2c"]], w.delivered["e2c"], EVT_TYPES, w.raised["e2c"]),
        ):
            sc = Counter(key(m) for m in sent_list)
            dc = Counter(key(m) for m in deliv_lists if type(m).__name__ in types)
            for k, n in dc.items():
                if n > sc.get(k, 0):
                    mech = "duplicate-delivery" if sc.get(k, 0) else "delivered-but-never-sent"
                    col.violation(f"{mech}:{direction}", f"{k[1][:120]} delivered {n}x, handed to the layer {sc.get(k, 0)}x", wit, index)
                    return
            for k, n in sc.items():
                if dc.get(k, 0) < n:
                    if raised is None:
                        col.violation(f"silent-loss:{direction}", f"{k[1][:120]} handed to the layer {n}x, delivered {dc.get(k, 0)}x, and the sender never raised (plan {plan_class})", wit, index)
                        return
                    col.count("undelivered_but_reported")
            if raised is not None:
                col.count("sender_raises_observed")
                if finite and "retried too many times" in raised[0]:
                    col.violation(f"gave-up-under-finite-loss:{direction}", f"sender raised {raised[0][:120]} although no message lost more than 12 consecutive transmissions", wit, index)
                    return
                if finite and "retried too many times" not in raised[0]:
                    col.violation(f"endpoint-failed:{direction}", f"{raised[0][:200]}", wit, index)
                    return
        if not finite:
            # bounded number of retries, not silence: the affected sender must have raised, within the retry budget
            side = "c2e" if plan_class in ("partition-c2e", "partition-acks") else "e2c"
            affected = [t for (d, _i), t in first_affected.items() if (d == "c2x") == (side == "c2e")]
            r = w.raised[side]
            if affected and r is None:
                # every message was delivered (checked above): the frames the partition ate were retransmissions of messages whose
                # first copy had got through -- nothing was left to report
                col.count("partition_only_hit_redundant_retransmissions")
            elif affected:
                budget_ns = (comms.max_retries_per_message + 3) * (grace_ms + 800) * 10**6 + 200 * 1000 * 10**6
                if r[1] - min(affected) > budget_ns:
                    col.violation(f"partition-reported-too-late:{side}", f"raise came {(r[1] - min(affected)) / 1e9:.1f} virtual s after the first dropped transmission", wit, index)
    finally:
        w.close()


# ---- receiver-side exactly-once for every acknowledged frame shape -------------------------------------------

def one_receiver_stream(col: Collector, rng, index: int):
    """A stream of acknowledged frame lists -- [Syn, message] as the ReliableSender writes them and [Syn, header, value] as
    send_data writes dataset payloads (data server -> data server, data server -> controller for a fetch) -- from 1-3 senders,
    each transmission repeated 1-3 times (network duplicates, retries after a lost or late ack) and the copies interleaved
    with other traffic: the real Listener must hand every distinct (sender, idx) to the application exactly once, with the
    payload it was sent with, and acknowledge every copy."""
    import cascade.executor.comms as comms
    import cascade.executor.msg as msg
    from cascade.executor.serde import ser_message
    from cascade.low.core import DatasetId
    from vlib.checks.c17 import fake_listener
    acks = []
    real_cb = comms.callback
    comms.callback = lambda a, m: acks.append((a, m))
    try:
        lst, sock = fake_listener(comms)
        senders = [f"ack://s{j}" for j in range(rng.randint(1, 3))]
        originals = []
        for j, snd in enumerate(senders):
            for idx in range(rng.randint(1, 6)):
                ds = DatasetId(f"r{j}x{idx}", "0")
                syn = ser_message(msg.Syn(idx, snd))
                if rng.random() < 0.5:
                    hdr_obj = msg.DatasetTransmitPayloadHeader(snd, idx, ds, "cloudpickle.loads")
                    val = rng.randbytes(rng.choice([0, 1, 40]))
                    originals.append(("payload", snd, idx, [syn, pickle.dumps(hdr_obj), val], msg.DatasetTransmitPayload(hdr_obj, val)))
                else:
                    m = msg.DatasetPurge(ds)
                    originals.append(("plain", snd, idx, [syn, ser_message(m)], m))
        stream = []
        for o in originals:
            stream.extend([o] * rng.choice([1, 1, 2, 3]))
        # per-sender order of FIRST copies is kept (zmq is FIFO per connection); later copies land anywhere after their first
        firsts, copies = [], []
        seen = set()
        for o in stream:
            k = (o[1], o[2])
            (copies if k in seen else firsts).append(o)
            seen.add(k)
        order = list(firsts)
        for o in copies:
            pos = next(i for i, x in enumerate(order) if x is o)
            order.insert(rng.randint(pos + 1, len(order)), o)
        delivered = []
        for o in order:
            sock.frames = list(o[3])
            try:
                got = lst.recv_messages(0)
            except Exception as e:  # noqa: BLE001
                col.violation(f"receiver:well-formed-{o[0]}-frames-rejected", f"{e!r:.200}", {"kind": o[0]}, index)
                return
            delivered.extend(got)
        col.count("receiver_streams")
        col.count("receiver_frames", len(order))
        col.count("receiver_duplicate_frames", len(order) - len(originals))
        col.count("receiver_payload_messages", sum(1 for o in originals if o[0] == "payload"))
        col.case(shape=digest("receiver", [(o[0], o[1], o[2]) for o in order]), nontrivial=len(order) > len(originals),
                 sample={"senders": len(senders), "messages": len(originals), "frames": len(order), "kinds": [o[0] for o in originals][:20]})
        if len(acks) != len(order):
            col.violation("receiver:copy-not-acknowledged", f"{len(order)} acknowledged frame lists arrived, {len(acks)} acks were sent", {"frames": [(o[0], o[1], o[2]) for o in order]}, index)
            return
        want = Counter(repr(o[4]) for o in originals)
        got = Counter(repr(m) for m in delivered)
        for o in originals:
            k = repr(o[4])
            if got.get(k, 0) > want[k]:
                col.violation(f"receiver:duplicate-delivery:{o[0]}", f"{k[:120]} from {o[1]} #{o[2]} arrived {sum(1 for x in order if x is o)}x and was handed to the application {got[k]}x",
                              {"frames": [(x[0], x[1], x[2]) for x in order]}, index)
                return
            if got.get(k, 0) < want[k]:
                col.violation(f"receiver:message-not-delivered:{o[0]}", f"{k[:120]} from {o[1]} #{o[2]} was never handed to the application", {"frames": [(x[0], x[1], x[2]) for x in order]}, index)
                return
        extra = set(got) - set(want)
        if extra:
            col.violation("receiver:delivered-but-never-sent", f"{sorted(extra)[0][:160]}", None, index)
    finally:
        comms.callback = real_cb


# ---- malformed frame sequences -----------------------------------------------------------------------------

def one_malformed(col: Collector, rng, index: int):
    import cascade.executor.comms as comms
    import cascade.executor.msg as msg
    from cascade.executor.serde import ser_message
    from cascade.low.core import DatasetId
    from vlib.checks.c17 import fake_listener
    acks = []
    real_cb = comms.callback
    comms.callback = lambda a, m: acks.append((a, m))
    try:
        lst, sock = fake_listener(comms)
        syn = ser_message(msg.Syn(rng.randrange(1000), "ack://x"))
        syn2 = ser_message(msg.Syn(rng.randrange(1000, 2000), "ack://x"))
        m = msg.DatasetPurge(DatasetId(f"t{rng.randrange(99)}", "0"))
        mb = ser_message(m)
        hdr_obj = msg.DatasetTransmitPayloadHeader("a://b", 3, DatasetId("t", "0"), "cloudpickle.loads")
        hdr = pickle.dumps(hdr_obj)
        v = rng.randbytes(rng.choice([0, 1, 50]))
        x = rng.choice([b"", b"x", mb, syn2])
        junk = rng.randbytes(rng.randint(1, 20))
        cases = {
            "empty": ([], "raise"), "syn-only": ([syn], "raise"), "syn-syn-m": ([syn, syn2, mb], "raise"), "syn-hdr": ([syn, hdr], "raise"),
            "hdr-only": ([hdr], "raise"), "hdr-v-x": ([hdr, v, x], "raise"), "m-x": ([mb, x], "raise"), "syn-m-x": ([syn, mb, x], "raise"),
            "syn-hdr-v-x": ([syn, hdr, v, x], "raise"), "junk": ([junk], "raise"), "syn-junk": ([syn, junk], "raise"), "truncated": ([mb[: max(1, len(mb) // 2)]], "raise"),
            "syn-truncated": ([syn, mb[: max(1, len(mb) // 2)]], "raise"),
            "valid-plain": ([mb], m), "valid-acked": ([syn, mb], m), "valid-payload": ([hdr, v], msg.DatasetTransmitPayload(hdr_obj, v)),
            "valid-acked-payload": ([syn, hdr, v], msg.DatasetTransmitPayload(hdr_obj, v)),
        }
        name = rng.choice(list(cases))
        frames, expect = cases[name]
        sock.frames = list(frames)
        col.count("malformed_probes")
        col.case(shape=("malformed", name), nontrivial=True, sample={"frames": name})
        try:
            got = lst._recv_one(0)
        except Exception:  # noqa: BLE001
            if not isinstance(expect, str):
                col.violation(f"well-formed-frames-rejected:{name}", "Listener._recv_one raised on a well-formed frame list", {"frames": name}, index)
            return
        if isinstance(expect, str):
            if name in ("junk", "syn-junk"):
                try:
                    obj = pickle.loads(junk)
                except Exception:  # noqa: BLE001
                    obj = NotImplemented
                if obj is not NotImplemented and not hasattr(obj, "__dataclass_fields__"):
                    # a few random byte strings ARE pickles (b"]." is the empty list): the frame is then well formed at the byte level and
                    # decodes to something that is no message at all -- the Listener hands that over unvalidated (observation, 6.5)
                    col.observe("random_bytes_that_are_a_pickle_of_a_non_message_were_handed_over")
                    return
            col.violation(f"malformed-frames-delivered:{name}", f"frame list {name} was accepted and returned {got!r:.120}", {"frames": name}, index)
        elif got != expect:
            col.violation(f"frames-delivered-as-different-message:{name}", f"{got!r:.100} != {expect!r:.100}", {"frames": name}, index)
    finally:
        comms.callback = real_cb


def one_lossy(col: Collector, rng, index: int, base_port: int):
    """LossyZmq: the same oracle over real zmq sockets in real time (vlib/lossyzmq.py, one history per process)."""
    import json
    import os
    import signal
    import subprocess
    import tempfile
    from vlib.common.driver import PY, child_env
    plan_class = rng.choice(["none", "loss", "loss", "dup", "hold", "mixed"])
    spec = {"seed": rng.randrange(10**9), "base_port": base_port, "plan_class": plan_class, "n_c": rng.randint(1, 12), "n_e": rng.randint(1, 12)}
    fd, path = tempfile.mkstemp(prefix="v06z", suffix=".json")
    with os.fdopen(fd, "w") as f:
        json.dump(spec, f)
    out = ""
    try:
        p = subprocess.Popen([PY, "-m", "vlib.lossyzmq", path], env=child_env(), cwd=os.path.dirname(os.path.dirname(os.path.dirname(os.path.abspath(__file__)))),
                             stdout=subprocess.PIPE, stderr=subprocess.DEVNULL, start_new_session=True, text=True)
        try:
            out, _ = p.communicate(timeout=60)
        except subprocess.TimeoutExpired:
            out = ""
        finally:
            try:
                os.killpg(p.pid, signal.SIGKILL)
            except ProcessLookupError:
                pass
            p.wait()
    finally:
        os.unlink(path)
        import glob
        for f_ in glob.glob(f"/tmp/lz{base_port}.w*.socket"):
            try:
                os.unlink(f_)
            except OSError:
                pass
    r = None
    for ln in out.splitlines():
        if ln.startswith("RESULT "):
            r = json.loads(ln[7:])
    col.count("lossyzmq_histories")
    if r is None or r.get("outcome") != "ok":
        col.observe("lossyzmq_history_without_result")
        col.count("lossyzmq_inconclusive")
        return
    st = r["stats"]
    for k, v in st.items():
        col.count(f"lossyzmq_{k}", v)
    wit = {"tier": "LossyZmq (real sockets)", "plan": plan_class, "stats": st, "raised": r["raised"]}
    col.case(shape=digest("lossy", plan_class, st.get("dropped", 0) > 0, st.get("duplicated", 0) > 0, st.get("acks_dropped", 0) > 0),
             nontrivial=(st.get("dropped", 0) + st.get("duplicated", 0) + st.get("acks_dropped", 0) + st.get("held", 0)) > 0, sample=wit)
    if not r["quiescent"]:
        col.observe("lossyzmq_history_not_quiescent")
        col.count("lossyzmq_inconclusive")
        return
    for direction, d_sent, d_deliv, types, raised in (
        ("controller->executor", "c2e", "c2e", CMD_TYPES + ("ExecutorShutdown",), r["raised"]["c2e"]),
        ("executor->controller", "e2c", "e2c", EVT_TYPES, r["raised"]["e2c"]),
    ):
        if raised is not None:
            # real time on a possibly loaded machine: a give-up may be the harness's own timing -- inconclusive for this history
            col.observe("lossyzmq_sender_gave_up_in_real_time")
            col.count("lossyzmq_inconclusive")
            return
        sc = Counter(tuple(k) for k in r["sent"][d_sent])
        dc = Counter(tuple(k) for k in r["delivered"][d_deliv] if k[0] in types)
        for k, n in dc.items():
            if n > sc.get(k, 0):
                col.violation(f"lossyzmq:{'duplicate-delivery' if sc.get(k, 0) else 'delivered-but-never-sent'}:{direction}", f"{k[1][:120]} delivered {n}x, handed to the layer {sc.get(k, 0)}x", wit, index)
                return
        for k, n in sc.items():
            if dc.get(k, 0) < n:
                col.violation(f"lossyzmq:silent-loss:{direction}", f"{k[1][:120]} handed to the layer {n}x, delivered {dc.get(k, 0)}x, sender quiescent and never raised", wit, index)
                return
    col.count("lossyzmq_histories_checked")


def run_lossy_shard(spec, col: Collector):
    import logging
    logging.disable(logging.CRITICAL)
    from vlib.common import ports
    seed, shard = spec["seed"], spec["shard"]
    block, base = None, None
    used = 0
    try:
        for i in range(spec["n"]):
            if col.out_of_time():
                break
            if block is None or used + 3 > ports.SIZE:
                if block is not None:
                    pass  # keep the old block locked: its sockets stay bound until this process exits
                block, base = ports.acquire()
                used = 0
            if col.want(i):
                guarded(col, i, one_lossy, col, case_rng(seed, shard, i), i, base + used)
            used += 3
    finally:
        pass  # blocks are reclaimed when this shard process has exited


def run_shard(spec, col: Collector):
    if spec.get("kind") == "lossy":
        return run_lossy_shard(spec, col)
    import logging
    logging.disable(logging.CRITICAL)
    seed, shard = spec["seed"], spec["shard"]
    for i in range(spec["n"]):
        if col.out_of_time():
            break
        if col.want(i):
            rng = case_rng(seed, shard, i)
            r_ = rng.random()
            guarded(col, i, one_malformed if r_ < 0.15 else (one_receiver_stream if r_ < 0.3 else one_history), col, rng, i)


def plan(tier, seed, scale=1.0):
    q = tier == "quick"
    n, copies = (400, 16) if q else (6000, 16)
    return [dict(shard=f"n{c}", n=int(n * scale), budget_s=70 if q else 1000, timeout_s=200 if q else 1600,
                 hash_seed=(seed * 73 + c) % 4294967295) for c in range(copies)] + [
        dict(kind="lossy", phase=1, shard=f"z{c}", n=max(1, int((3 if q else 50) * scale)), budget_s=80 if q else 1200, timeout_s=200 if q else 1800) for c in range(2 if q else 4)]
