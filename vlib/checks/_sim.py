"""Shared shard runner of the SimCluster checks (C01-C04): one engine, every monitor runs, each check reports its own property."""

from __future__ import annotations

from vlib.common.core import Collector, case_rng, digest, guarded


def one_case(col: Collector, rng, index: int, prop: str, max_tasks: int, emphasis: str):
    from vlib import simcluster as sc
    from vlib.jobgen import gen_env, gen_jobspec, job_shape
    shape = None
    allow_none = False
    reorder = False
    r = rng.random()
    if emphasis == "liveness":
        if r < 0.35:
            shape = rng.choice(["components", "isolated", "empty", "chain", "wide"])
        allow_none = rng.random() < 0.06
        reorder = rng.random() < 0.2
    elif emphasis == "data":
        if r < 0.4:
            shape = rng.choice(["fanin", "diamond", "layered", "triangular"])
    else:
        allow_none = rng.random() < 0.04
        reorder = rng.random() < 0.15
    # mixed-accelerator class: every host has a gpu worker next to cpu workers and about half of the tasks need a gpu, so that
    # one scheduling round assigns gpu and cpu consumers of the same remote dataset to one host (two assignment passes)
    # wide class: at least 16 workers idle and at least 16 tasks computable in one scheduling round (a whole assignment pass
    # of that size is otherwise never seen: 4 hosts x 4 workers at most)
    wide = rng.random() < 0.03
    if wide:
        shape = rng.choice(["wide", "wide", "diamond"])
        max_tasks = max(max_tasks, 48)
    gpu_mix = (not wide) and rng.random() < 0.2
    if gpu_mix and shape is None:
        shape = rng.choice(["diamond", "diamond", "wide", "layered", "triangular"])
    # very wide class (rare, expensive): 64-80 workers idle and more than 64 tasks computable in one round
    xwide = wide and rng.random() < 0.15
    js = gen_jobspec(rng, max_tasks=max_tasks if wide else rng.choice([4, 8, max_tasks]), shape="diamond" if xwide else shape, allow_none=allow_none,
                     n_tasks=rng.randint(72, 100) if xwide else None, big_outputs=not xwide)
    if gpu_mix:
        for t in js["tasks"].values():
            t["needs_gpu"] = rng.random() < 0.45
    if emphasis == "data" and js["order"]:
        # replication classes: requested outputs that are also consumed (possibly on other hosts), many consumers
        all_ds = [(t, o) for t in js["order"] for o in js["tasks"][t]["outputs"]]
        consumed = sorted({(e[0], e[1]) for e in js["edges"]})
        if consumed and rng.random() < 0.7:
            js["ext"] = sorted(set(js["ext"]) | set(rng.sample(consumed, rng.randint(1, len(consumed)))))
    env = gen_env(rng, js, max_hosts=rng.choice([4, 4, 4, 6]), max_workers=4)
    if emphasis == "liveness" and rng.random() < 0.2:
        env = {"h0": [(f"w{i}", 1 if i == 0 and any(t["needs_gpu"] for t in js["tasks"].values()) else 0) for i in range(rng.randint(1, 4))]}
    if gpu_mix:
        env = {f"h{h}": [("w0", 1), ("w1", 0)] + [(f"w{2 + i}", rng.choice([0, 1])) for i in range(rng.randint(0, 2))] for h in range(rng.randint(2, 3))}
        col.count("runs_mixed_gpu_class")
    if wide:
        env = {f"h{h}": [(f"w{i}", 1 if i == 0 else 0) for i in range(rng.randint(6, 8))] for h in range(rng.randint(3, 4))}
        col.count("runs_wide_class")
        if xwide:
            env = {f"h{h}": [(f"w{i}", 1 if i == 0 else 0) for i in range(16)] for h in range(rng.randint(4, 5))}
            col.count("runs_very_wide_class")
    policy = rng.choice(sc.POLICIES)
    out = sc.run_case(js, env, rng, policy, reorder=reorder)
    b = out["bridge"]
    nontrivial = len(js["order"]) >= 2 and len(js["edges"]) >= 1
    col.case(shape=digest(job_shape(js), sorted((h, len(ws), sum(g for _w, g in ws)) for h, ws in env.items()), policy, sc.interleaving_digest(b)),
             nontrivial=nontrivial,
             sample={"job": {"shape": js["shape"], "tasks": {t: js["tasks"][t]["outputs"] for t in js["order"][:10]}, "edges": [list(map(str, e)) for e in js["edges"][:16]], "ext": [list(e) for e in js["ext"][:8]]},
                     "env": {h: [list(w) for w in ws] for h, ws in env.items()}, "policy": policy, "trace": b.trace[:40]})
    col.count("runs")
    col.count(f"policy_{policy}")
    col.count("commands_task_sequence", len(b.dispatched))
    col.count("commands_transmit", len(b.transmit_cmds))
    col.count("commands_fetch", len(b.fetch_cmds))
    col.count("commands_purge", len(b.purges_issued))
    col.count("events_returned", b.n_events)
    col.count("tasks_executed", len(b.executed))
    col.count("rounds", out["rounds"])
    if reorder:
        col.count("runs_reorder_class")
    if len(env) > 1:
        col.count("runs_multi_host")
    if out["exc"] is None:
        col.count("runs_returned")
        col.count("outputs_compared", len(js["ext"]))
    col.state(sc.interleaving_digest(b))
    seen = set()
    for (p, mech, msg) in b.V.items:
        if p != prop or mech in seen:
            continue
        seen.add(mech)
        col.violation(mech, msg, {"job": {"shape": js["shape"], "tasks": {t: {k: (v if k != "static_kw" and k != "static_ps" else repr(v)) for k, v in js["tasks"][t].items()} for t in js["order"]},
                                          "edges": [list(map(str, e)) for e in js["edges"]], "ext": [list(e) for e in js["ext"]]},
                                  "env": {h: [list(w) for w in ws] for h, ws in env.items()}, "policy": policy, "reorder": reorder, "trace": b.trace[-80:]}, index)
        break  # first violation of a run; later ones are consequences


def run_shard(spec, col: Collector):
    import logging
    import warnings
    warnings.simplefilter("ignore")
    logging.disable(logging.CRITICAL)
    seed, shard = spec["seed"], spec["shard"]
    for i in range(spec["n"]):
        if col.out_of_time():
            break
        if col.want(i):
            guarded(col, i, one_case, col, case_rng(seed, shard, i), i, spec["prop"], spec["max_tasks"], spec["emphasis"])


def make_plan(prop, emphasis, salt):
    def plan(tier, seed, scale=1.0):
        q = tier == "quick"
        n, copies, mt = (500, 16, 16) if q else (15000, 16, 40)
        return [dict(shard=f"s{c}", n=int(n * scale), prop=prop, emphasis=emphasis, max_tasks=mt, budget_s=60 if q else 900, timeout_s=180 if q else 1500,
                     hash_seed=(seed * salt + c * 7919 + 1) % 4294967295) for c in range(copies)]
    return plan
