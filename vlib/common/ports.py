"""Port-block allocator for the real-process engines: concurrent runs (two checks, quick + thorough, a background sweep)
must never share TCP/UDP ports, host ids or shm prefixes. A block is 40 consecutive ports below the ephemeral range,
claimed with an O_EXCL lock file that names the owner's pid; blocks of dead owners are reclaimed."""

from __future__ import annotations

import os
import random

BASE, SIZE, COUNT = 12000, 40, 500      # 12000 .. 31999
LOCKDIR = "/tmp/verif-portblocks"


def _alive(pid: int) -> bool:
    return os.path.exists(f"/proc/{pid}")


def acquire(owner_pid: int | None = None) -> tuple[int, int]:
    """Returns (block index, first port). The lock is released by release() or reclaimed once the owner has exited."""
    os.makedirs(LOCKDIR, exist_ok=True)
    owner = owner_pid or os.getpid()
    order = list(range(COUNT))
    random.Random(os.getpid() ^ int.from_bytes(os.urandom(4), "big")).shuffle(order)
    for i in order:
        path = os.path.join(LOCKDIR, f"{i}.lock")
        try:
            fd = os.open(path, os.O_CREAT | os.O_EXCL | os.O_WRONLY, 0o644)
        except FileExistsError:
            try:
                pid = int(open(path).read().strip() or "0")
            except (OSError, ValueError):
                pid = 0
            if pid and _alive(pid):
                continue
            try:
                os.unlink(path)
            except OSError:
                pass
            try:
                fd = os.open(path, os.O_CREAT | os.O_EXCL | os.O_WRONLY, 0o644)
            except FileExistsError:
                continue
        os.write(fd, str(owner).encode())
        os.close(fd)
        return i, BASE + i * SIZE
    raise RuntimeError("no free port block")


def release(i: int) -> None:
    try:
        os.unlink(os.path.join(LOCKDIR, f"{i}.lock"))
    except OSError:
        pass
