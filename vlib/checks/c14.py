"""C14 -- fluent node names identify computations; operations leave operands intact (engine E6 generators)."""

from __future__ import annotations

import functools

from vlib.common.core import Collector, case_rng, digest, guarded

ID = "C14"
LEVEL = "exploration"
MANIFEST = dict(
    engine="E6-fluentshadow", engine_path="vlib/fluentshadow.py",
    kind="generated corpora of fluent programs over shared sources; name->computation descriptor map, determinism re-build, operand snapshots around every operation",
    technique="runtime monitoring of the real fluent API: (1) over the union of 2-6 generated actions a map name -> (callable object, static args by value, input names) must be a function (two descriptors under one name = violation), then Cascade.from_actions/serialise/graph2job must keep every computation; (2) the same program built twice must give identical name arrays, in the same process and again in a fresh interpreter started with another PYTHONHASHSEED (names must depend neither on what the process built before nor on the interpreter's string-hash salt); (3) (dims, coords, names, attrs) of every live action are snapshotted before and compared after every operation, including binary operations whose operands carry different coordinate values and the size-1 no-op paths",
    text="Held = no name was shared by two different computations in any corpus, every rebuilt program had identical names, no snapshot of an earlier action changed after any later operation.",
    note="callable identity = the callable object (functools.partial: func+args+keywords); static arrays are compared by bytes; consequences (serialise assertion, lost tasks) are only checked for corpora whose names are injective.",
)
RULE = (
    "case = one corpus: a shared source action, 2-6 derived actions built from generated op lists with callables drawn from {same function, different "
    "functions, two lambdas, two defs with equal __name__ from different scopes, functools.partial} and static args {equal, different, different large "
    "arrays with equal truncated repr}; every op application is an immutability probe; non-trivial = >=2 actions with >=1 map/reduce each; "
    "distinct = digest(callable classes, op classes)"
)
ASSUMPTIONS = ["two nodes denote the same computation iff same callable object, equal static args/kwargs and inputs with equal names (induction over the DAG)"]
REQUIRED_COUNTERS = ["corpora", "names_checked", "determinism_checks", "fresh_interpreter_rebuilds", "immutability_probes", "binary_ops_with_different_coords", "consequence_checks"]


def plus(x, c=1):
    return x + c


def times(x, c=2):
    return x * c


def make_named(kind, c):
    """Two defs with the same __name__ created in different scopes."""
    if kind == 0:
        def f(x):
            return x + c
    else:
        def f(x):
            return x * c + 1
    return f


def snapshot(a):
    import numpy as np
    return (tuple(str(d) for d in a.nodes.dims), tuple(a.nodes.shape),
            tuple((str(k), tuple(np.asarray(v.values).reshape(-1).tolist())) for k, v in sorted(a.nodes.coords.items(), key=lambda kv: str(kv[0]))),
            tuple(n.name if hasattr(n, "name") and not hasattr(n, "parent") else f"{n.parent.name}.{n.name}" for n in a.nodes.data.reshape(-1)),
            tuple(sorted((str(k), repr(v)) for k, v in a.nodes.attrs.items())))


def norm_static(v):
    import numpy as np
    if isinstance(v, np.ndarray):
        return ("nd", v.shape, str(v.dtype), v.tobytes())
    if isinstance(v, (list, tuple)):
        return (type(v).__name__,) + tuple(norm_static(x) for x in v)
    if isinstance(v, dict):
        return ("dict",) + tuple(sorted((str(k), norm_static(x)) for k, x in v.items()))
    if isinstance(v, functools.partial):
        return ("partial", id(v.func), norm_static(v.args), norm_static(v.keywords))
    if callable(v):
        return ("callable", id(v))
    return (type(v).__name__, repr(v))


def descriptor(node):
    func, args, kwargs = node.payload
    ins = tuple(sorted((i, s.parent.name, s.name) for i, s in node.inputs.items()))
    return (("func", id(func)), norm_static(list(args)), norm_static(kwargs), tuple(node.outputs), ins)


def callable_class(desc_a, node_a, node_b):
    fa, fb = node_a.payload[0], node_b.payload[0]
    if fa is not fb:
        na = getattr(fa, "__name__", "")
        return "same-__name__-different-callable:" + ("lambda" if na == "<lambda>" else "def")
    if norm_static(list(node_a.payload[1])) != norm_static(list(node_b.payload[1])) or norm_static(node_a.payload[2]) != norm_static(node_b.payload[2]):
        sa, sb = str(node_a.payload[1]) + str(node_a.payload[2]), str(node_b.payload[1]) + str(node_b.payload[2])
        return "static-args-differ-but-str-equal" if sa == sb else "static-args-differ"
    if tuple(node_a.outputs) != tuple(node_b.outputs):
        return "outputs-differ"
    return "inputs-differ"


def one_corpus(col: Collector, rng, index: int, names_out: list | None = None):
    import numpy as np
    from earthkit.workflows import Cascade, fluent
    from earthkit.workflows.graph import serialise
    from vlib import fluentshadow as fs
    import cascade.low.into as into

    src = fs.gen_source(rng)
    live: list = []          # (action, snapshot)
    probes = [0]
    wit_ops: list = []

    def check_live(where):
        for k, (a, snap) in enumerate(live):
            probes[0] += 1
            now = snapshot(a)
            if now != snap:
                what = "dims" if now[0] != snap[0] else ("coords" if now[2] != snap[2] else ("names" if now[3] != snap[3] else "attrs"))
                return k, what
        return None

    def add_live(a):
        live.append((a, snapshot(a)))
        return a

    def build(seq, record=True):
        a = fs.fluent_source(src)
        if record:
            add_live(a)
        for op in seq:
            a2 = op["apply"](a)
            if record:
                bad = check_live(op["label"])
                if bad is not None:
                    col.violation(f"operand-mutated:{op['label']}:{bad[1]}", f"after {op['label']} the {bad[1]} of an existing action (#{bad[0]}) changed",
                                  {"source": {k: (list(v) if isinstance(v, tuple) else v) for k, v in src.items()}, "ops": wit_ops + [op["label"]]}, index)
                    return None
                if a2 is not a:
                    add_live(a2)
                wit_ops.append(op["label"])
            a = a2
        return a

    # ---- callable pool -----------------------------------------------------------------------------------
    big1 = np.arange(3000, dtype="float64")
    big2 = big1.copy()
    big2[1500] = -1.0
    lam_a = lambda x: x + 1  # noqa: E731
    lam_b = lambda x: x * 2  # noqa: E731
    pool = {
        "same": [plus, plus], "different": [plus, times], "lambdas": [lam_a, lam_b], "same_lambda": [lam_a, lam_a],
        "defs_same_name": [make_named(0, 2), make_named(1, 2)], "closure_same_code": [make_named(0, 2), make_named(0, 3)],
        "partials": [functools.partial(plus, c=3), functools.partial(plus, c=4)], "same_partial_values": [functools.partial(plus, c=3), functools.partial(plus, c=3)],
    }

    def mk_ops(rng, variant):
        """A generated op list; `variant` picks which of two callables / static args is used at the varying position."""
        seq = []
        s = fs.shadow_source(src)
        n_ops = rng.randint(1, 3)
        for j in range(n_ops):
            kind = rng.choice(["map_callable", "map_callable", "map_static", "shadow_op", "shadow_op", "binary_diff_coords", "size1_stack", "size1_concat"])
            if kind == "map_callable":
                cls = rng.choice(list(pool))
                f = pool[cls][variant]
                seq.append({"label": f"map[{cls}]", "apply": (lambda a, f=f: a.map(f)), "cls": cls})
            elif kind == "map_static":
                scls = rng.choice(["equal", "different", "big_equal_repr"])
                if scls == "equal":
                    pay = fluent.Payload(plus, kwargs={"c": 5})
                elif scls == "different":
                    pay = fluent.Payload(plus, kwargs={"c": 5 + variant})
                else:
                    pay = fluent.Payload(np.add, args=("input0", (big1, big2)[variant]))
                seq.append({"label": f"map-static[{scls}]", "apply": (lambda a, pay=pay: a.map(pay)), "cls": f"static-{scls}"})
            elif kind == "shadow_op":
                op = None
                for _ in range(5):
                    op = fs.gen_op(rng, s, set())
                    if op is not None and op["op"] not in ("broadcast",):
                        try:
                            s2 = fs.shadow_apply(s, op)
                        except Exception:  # noqa: BLE001
                            op = None
                            continue
                        if s2.arr.size > 3000:
                            op = None
                            continue
                        s = s2
                        break
                    op = None
                if op is None:
                    continue
                seq.append({"label": f"{op['op']}" + (f"-{op.get('name')}" if op.get("name") else ""), "apply": (lambda a, op=op: fs.fluent_apply(a, op)), "cls": op["op"]})
            elif kind == "binary_diff_coords":
                name = rng.choice(["add", "subtract", "multiply", "divide"])

                def app(a, name=name):
                    dims = [str(d) for d in a.nodes.dims]
                    if not dims:
                        return a
                    coords = {d: [f"other{i}" if isinstance(v, str) else v + 1000 for i, v in enumerate(a.nodes.coords[d].values.tolist())] for d in dims}
                    other = fs.fluent_source({"dims": dims, "coords": coords, "inner": (), "seed": 777})
                    add_live(other)
                    col.count("binary_ops_with_different_coords")
                    return getattr(a, name)(other)
                seq.append({"label": f"binary-{name}-different-coords", "apply": app, "cls": "binary"})
            else:
                which = "stack" if kind == "size1_stack" else "concatenate"

                def app1(a, which=which):
                    dims = [str(d) for d in a.nodes.dims]
                    if not dims:
                        return a
                    d = dims[0]
                    one = a.isel({d: [0]})
                    add_live(one)
                    col.count("size1_noop_probes")
                    return getattr(one, which)(d)
                seq.append({"label": f"{which}-on-size-1-dim", "apply": app1, "cls": "size1"})
        return seq

    # ---- corpus ------------------------------------------------------------------------------------------
    n_actions = rng.randint(2, 6)
    actions = []
    classes = []
    state = rng.getstate()
    for k in range(n_actions):
        # pairs share an op-list skeleton and differ in the callable / static value used (variant 0 / 1)
        if k % 2 == 0:
            skeleton_state = rng.getstate()
            seq = mk_ops(rng, 0)
        else:
            after = rng.getstate()
            rng.setstate(skeleton_state)
            seq = mk_ops(rng, 1)
            rng.setstate(after)
        classes.append(tuple(o["cls"] for o in seq))
        try:
            a = build(seq)
        except Exception as e:  # noqa: BLE001 -- building programs is C13's business
            col.observe("program_did_not_build")
            continue
        if a is None:
            col.case(shape=digest(classes), nontrivial=True)
            return
        actions.append((a, seq))
    if names_out is not None:
        names_out.extend([list(snapshot(a)[3]), [o["label"] for o in seq]] for a, seq in actions)
    col.count("corpora")
    col.count("immutability_probes", probes[0])
    col.case(shape=digest(sorted(classes)), nontrivial=len(actions) >= 2 and all(len(c) >= 1 for c in classes),
             sample={"source_dims": src["dims"], "programs": [list(c) for c in classes]})
    if not actions:
        return

    # ---- determinism: rebuild each program, names must be identical ---------------------------------------
    for a, seq in actions:
        try:
            b = build(seq, record=False)
        except Exception:  # noqa: BLE001
            continue
        col.count("determinism_checks")
        if snapshot(a)[3] != snapshot(b)[3]:
            col.violation("names-not-deterministic", f"building the same program twice gave different node names ({[o['label'] for o in seq]})", {"ops": [o["label"] for o in seq]}, index)
            return

    # ---- injectivity over the union -------------------------------------------------------------------------
    by_name: dict[str, tuple] = {}
    terms: dict = {}
    term_of: dict[int, int] = {}

    def term(node) -> int:
        """computation denoted by a node, names excluded (the same computation may legitimately carry two names)"""
        if id(node) in term_of:
            return term_of[id(node)]
        func, args, kwargs = node.payload
        key = (id(func), norm_static(list(args)), norm_static(kwargs), tuple(node.outputs),
               tuple(sorted((i, term(s_.parent), s_.name) for i, s_ in node.inputs.items())))
        t = terms.setdefault(key, len(terms))
        term_of[id(node)] = t
        return t

    injective = True
    for a, _seq in actions:
        for node in a.graph().nodes():
            d = descriptor(node)
            col.count("names_checked")
            term(node)
            if node.name in by_name and by_name[node.name][0] != d:
                other = by_name[node.name][1]
                cls = callable_class(d, node, other)
                col.violation(f"name-collision:{cls}", f"two different computations share the name {node.name!r:.60}: payload {str(node.payload)[:80]} vs {str(other.payload)[:80]}",
                              {"programs": [list(c) for c in classes], "name": node.name}, index)
                injective = False
                break
            by_name.setdefault(node.name, (d, node))
        if not injective:
            break
    if not injective:
        return
    # ---- consequences: union, serialise, lowering keep every computation ---------------------------------------
    try:
        c = Cascade.from_actions([a for a, _ in actions])
        ser = serialise(c._graph)
        job = into.graph2job(c._graph)
    except Exception as e:  # noqa: BLE001
        col.violation(f"union-raises-{type(e).__name__}", f"Cascade.from_actions/serialise/graph2job raised {e!r:.200} although names are injective", {"programs": [list(c) for c in classes]}, index)
        return
    col.count("consequence_checks")
    if len(ser) < len(terms) or len(job.tasks) != len(ser):
        col.violation("union-loses-computations", f"{len(terms)} distinct computations, {len(ser)} serialised nodes, {len(job.tasks)} tasks", {"programs": [list(c) for c in classes]}, index)
    elif len(ser) > len(terms):
        col.observe("union_keeps_duplicates_of_one_computation")


def run_shard(spec, col: Collector):
    import warnings
    warnings.simplefilter("ignore")
    seed, shard = spec["seed"], spec["shard"]
    recorded: dict[int, list] = {}
    for i in range(spec["n"]):
        if col.out_of_time():
            break
        if col.want(i):
            names: list = []
            guarded(col, i, one_corpus, col, case_rng(seed, shard, i), i, names)
            if names:
                recorded[i] = names
    if spec.get("only") is not None or not recorded:
        return
    # ---- names must not depend on what this process built before: rebuild some corpora in a fresh interpreter ----------
    import json
    import os
    import subprocess
    from vlib.common.driver import PY, child_env
    api_ops = ("expand", "stack", "concatenate", "flatten", "reduce", "transform", "broadcast", "join")
    late = sorted(recorded)[len(recorded) // 3:]      # corpora built after the process had a history
    pref = [i for i in late if any(any(lbl.startswith(api_ops) for lbl in labels) for _n, labels in recorded[i])]
    chosen = (pref + [i for i in late if i not in pref])[: spec.get("fresh_rebuilds", 3)]
    for i in chosen:
        try:
            # another interpreter AND another string-hash seed: names must not depend on either
            other_seed = (int(spec.get("hash_seed") or 0) + 7919 * (i + 1)) % 4294967295
            out = subprocess.run([PY, "-m", "vlib.checks.c14", str(seed), shard, str(i)], env=child_env(other_seed), capture_output=True, text=True, timeout=120,
                                 cwd=os.path.dirname(os.path.dirname(os.path.dirname(os.path.abspath(__file__)))))
            line = [ln for ln in out.stdout.splitlines() if ln.startswith("NAMES ")]
            fresh = json.loads(line[-1][6:])
        except Exception:  # noqa: BLE001
            col.observe("fresh_interpreter_rebuild_failed")
            continue
        col.count("fresh_interpreter_rebuilds")
        here = [[list(n), list(lbl)] for n, lbl in recorded[i]]
        if [lbl for _n, lbl in here] != [lbl for _n, lbl in fresh]:
            col.observe("fresh_interpreter_rebuild_generated_another_program")   # generator not reproducible: no verdict
            continue
        for k, ((n_here, labels), (n_fresh, _l)) in enumerate(zip(here, fresh)):
            if n_here != n_fresh:
                col.violation("names-depend-on-process-history", f"program {labels} got other node names in a fresh interpreter than after {i} earlier corpora in this process "
                              f"(first difference: {next((a, b) for a, b in zip(n_here, n_fresh) if a != b)!r:.160})", {"ops": labels, "corpus": i}, i)
                break


def _fresh_main():
    """python -m vlib.checks.c14 <seed> <shard> <index>: rebuild one corpus in a fresh interpreter, print its node names."""
    import json
    import sys
    import warnings
    warnings.simplefilter("ignore")
    seed, shard, i = int(sys.argv[1]), sys.argv[2], int(sys.argv[3])
    col = Collector("C14", {"shard": shard, "seed": seed, "tier": "quick", "n": 0})
    names: list = []
    one_corpus(col, case_rng(seed, shard, i), i, names)
    sys.stdout.write("NAMES " + json.dumps(names) + "\n")


def plan(tier, seed, scale=1.0):
    q = tier == "quick"
    n, copies = (60, 8) if q else (1200, 16)
    return [dict(shard=f"n{c}", n=int(n * scale), budget_s=60 if q else 900, timeout_s=240 if q else 1800, fresh_rebuilds=2 if q else 12,
                 hash_seed=(seed * 47 + c) % 4294967295) for c in range(copies)]


if __name__ == "__main__":
    _fresh_main()
