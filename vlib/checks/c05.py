"""C05 -- a failing task or dying worker-side process fails the run, never hangs it (engine E2, RealCluster)."""

from __future__ import annotations

import json
import os
import signal
import subprocess
import tempfile

from vlib.common.core import Collector, case_rng, digest, guarded

ID = "C05"
LEVEL = "fault_enumeration"
MANIFEST = dict(
    engine="E2-realcluster", engine_path="vlib/realcluster.py",
    kind="real Executor processes with real forked workers, shm server and data server, real Bridge and controller.impl.run; faults injected by task bodies, by a wrapper around the publication notice, and by killing helper processes; event log + process/shm audit",
    technique="fault-injection on the real cluster with a logical-quiescence hang monitor: for each enumerated fault (task raises / sys.exit(0|3) / os._exit / SIGKILL x before any output / between two outputs / between the shm allocation of an output and its close / after the shm write but before the notice / after the last notice x task role x cluster shape; SIGKILL/SIGTERM of worker, shm server, data server while idle, during a task, or after a task on that host has published) the run must end: a hang is declared only when every live executor completed >=8 further loop iterations, the controller completed >=8 further polls that returned nothing but heartbeats, no acknowledged send is in flight and no task body is running; returned values are compared with sequential evaluation; afterwards the process tree and /dev/shm are audited",
    text="Held = no scenario hung, no run returned with a wrong or missing requested value, and after every run (failed or normal) no process started by it and no sCasc<host>* segment remained.",
    note="bounded restatement of 'never hangs' by logical quiescence (the only timers that can end a wait are the executor loop, the 20x0.8 s retry budget and the shutdown grace); a 100 s wall-clock watchdog only ever yields inconclusive; /tmp/*.socket files are not part of the statement.",
)
RULE = (
    "case = one fault scenario on a real cluster (shape 1x1, 1x2, 2x1, 2x2): job = source -> 3-output generator -> requested sink / unrequested sink (+ slow task for kills), "
    "or a generated job (thorough); fault = (how, when, role) for task faults or (what, signal, at, host) for helper kills, or none; non-trivial = a fault fired or a normal completion was audited; "
    "distinct = digest(shape, fault descriptor, job skeleton)"
)
ASSUMPTIONS = ["localhost cluster; ports and host ids unique per concurrent scenario", "a fault that never fired gives no verdict for that scenario (counted)"]
REQUIRED_COUNTERS = ["scenarios", "faults_fired", "outcome_raised", "outcome_returned", "audits_clean", "kills_fired"]

HOWS = ["raise", "exit0", "exit3", "_exit1", "sigkill"]
WHENS = ["start", "mid", "before_notice", "after_notice", "mid_publish"]
ROLES = ["source", "middle", "sink_req", "sink_unreq"]
SHAPES = [(1, 1), (1, 2), (2, 1), (2, 2)]
KILLS = [(w, s, a) for w in ("worker", "shm", "data") for s in ("SIGKILL", "SIGTERM") for a in ("idle", "during_task", "after_output")]


def base_job(slow=False):
    tasks = {
        "src": {"outputs": ["0"], "static_ps": {"0": 1}, "static_kw": {}, "needs_gpu": False},
        "mid": {"outputs": ["0", "1", "2"], "static_ps": {}, "static_kw": {"k": 2}, "needs_gpu": False},
        "snk1": {"outputs": ["0"], "static_ps": {}, "static_kw": {}, "needs_gpu": False},
        "snk2": {"outputs": ["0"], "static_ps": {"1": "s"}, "static_kw": {}, "needs_gpu": False},
        "side": {"outputs": ["0"], "static_ps": {"0": 7}, "static_kw": {}, "needs_gpu": False},
    }
    edges = [["src", "0", "mid", None, 0], ["mid", "0", "snk1", None, 0], ["mid", "2", "snk1", "kw", None], ["mid", "2", "snk2", None, 0]]
    return {"tasks": tasks, "edges": edges, "ext": [["snk1", "0"], ["src", "0"], ["side", "0"]], "order": ["src", "side", "mid", "snk1", "snk2"], "shape": "c05-base"}


ROLE_TASK = {"source": "src", "middle": "mid", "sink_req": "snk1", "sink_unreq": "snk2"}


def enumerate_scenarios(tier, rng):
    out = []
    for how in HOWS:
        for when in WHENS:
            for role in ROLES:
                if when == "mid" and role != "middle":
                    continue
                for shape in SHAPES:
                    out.append({"kind": "task", "how": how, "when": when, "role": role, "shape": shape})
    for (what, sig, at) in KILLS:
        for shape in SHAPES:
            for host in ({0, shape[0] - 1}):
                out.append({"kind": "kill", "what": what, "signal": sig, "at": at, "shape": shape, "host": host})
    for shape in SHAPES:
        out.append({"kind": "none", "shape": shape})
    return out


def build_spec(sc, shard_no, slot, index, rng, port_base=12000):
    js = base_job()
    faults, sleeps, kill = {}, {}, None
    if sc["kind"] == "task":
        t = ROLE_TASK[sc["role"]]
        last = js["tasks"][t]["outputs"][-1]   # declared order == key-sorted order in every generated job
        faults[t] = {"when": sc["when"], "how": sc["how"], "ds": f"{t}.{last}"}
    elif sc["kind"] == "kill":
        kill = {"what": sc["what"], "signal": sc["signal"], "at": sc["at"], "host": sc["host"]}
        if sc["at"] in ("during_task", "after_output"):
            sleeps = {"mid": 1.5, "side": 1.5, "src": 0.3}
    if sc.get("random_job"):
        from vlib.jobgen import gen_jobspec
        js = gen_jobspec(rng, max_tasks=sc.get("max_tasks", 6), gpu=False, big_outputs=False, shape=rng.choice(["layered", "diamond", "chain", "fanin", "triangular", "components"]))
        js["edges"] = [list(e) for e in js["edges"]]
        js["ext"] = [list(e) for e in js["ext"]]
        if sc["kind"] == "task" and js["order"]:
            multi = [t for t in js["order"] if len(js["tasks"][t]["outputs"]) > 1]
            t = rng.choice(multi) if sc["when"] == "mid" and multi else rng.choice(js["order"])
            if sc["when"] == "mid" and len(js["tasks"][t]["outputs"]) == 1:
                sc = dict(sc, when="start")
            last = js["tasks"][t]["outputs"][-1]   # declared order == key-sorted order in every generated job
            faults = {t: {"when": sc["when"], "how": sc["how"], "ds": f"{t}.{last}"}}
    if sc.get("ambiguous_names"):
        # task and output names whose plain concatenation coincides: t1 + 10 = t11 + 0, t + 11 = t1 + 1 (every dataset is requested
        # and consumed; a store keyed by the concatenation would hand one dataset out for the other)
        def T(n):
            return {"outputs": sorted(str(i) for i in range(n)), "static_ps": {"0": rng.randint(1, 9)}, "static_kw": {}, "needs_gpu": False, "returns_none": False}
        js = {"tasks": {"t": T(13), "t1": T(11), "t11": T(1), "sink": {"outputs": ["0"], "static_ps": {}, "static_kw": {}, "needs_gpu": False, "returns_none": False}},
              "edges": [["t1", "10", "sink", None, 0], ["t11", "0", "sink", None, 1], ["t", "11", "sink", None, 2], ["t1", "1", "sink", None, 3]],
              "ext": [["t1", "10"], ["t11", "0"], ["t", "11"], ["t1", "1"], ["sink", "0"]], "order": ["t", "t1", "t11", "sink"], "shape": "ambiguous-names"}
    nh, nw = sc["shape"]
    from vlib.common import ports
    block, cport = ports.acquire()   # unique among all concurrently running checks; below the ephemeral range (32768+)
    hid = f"b{block:03x}"
    hosts = [{"id": f"{hid}{h}", "workers": nw, "port": cport + 1 + h * 10} for h in range(nh)]
    tmp = tempfile.mkdtemp(prefix=f"v05-{hid}-")
    spec = {"tmp": tmp, "job": js, "hosts": hosts, "cport": cport, "faults": faults, "sleeps": sleeps, "watchdog_s": 100, "port_block": block}
    if sc.get("slow_before_shutdown_s"):
        spec["slow_before_shutdown_s"] = sc["slow_before_shutdown_s"]
    if kill:
        spec["kill"] = kill
    return spec, sc


def fault_label(sc):
    if sc["kind"] == "task":
        return f"task-{sc['how']}-{sc['when']}"
    if sc["kind"] == "kill":
        return f"kill-{sc['what']}-{sc['signal']}-{sc['at']}"
    return "no-fault"


def _launch(sc, shard_no, slot, index, rng, port_base):
    from vlib.common.driver import child_env, PY
    spec, sc = build_spec(sc, shard_no, slot, index, rng, port_base)
    fd, path = tempfile.mkstemp(prefix="v05spec", suffix=".json")
    with os.fdopen(fd, "w") as f:
        json.dump(spec, f)
    try:
        p = subprocess.Popen([PY, "-m", "vlib.realcluster", path], env=child_env(), cwd=os.path.dirname(os.path.dirname(os.path.dirname(os.path.abspath(__file__)))),
                             stdout=subprocess.PIPE, stderr=subprocess.DEVNULL, start_new_session=True, text=True)
        try:
            out, _ = p.communicate(timeout=160)
        except subprocess.TimeoutExpired:
            out = ""
        finally:
            try:
                os.killpg(p.pid, signal.SIGKILL)
            except ProcessLookupError:
                pass
            p.wait()
    finally:
        os.unlink(path)
        import glob
        import shutil
        from vlib.common import ports
        ports.release(spec["port_block"])
        shutil.rmtree(spec["tmp"], ignore_errors=True)
        for h in spec["hosts"]:
            for s in glob.glob(f"/dev/shm/sCasc{h['id']}*") + glob.glob(f"/tmp/{h['id']}.w*.socket"):
                try:
                    os.unlink(s)
                except OSError:
                    pass
    res = None
    for ln in out.splitlines():
        if ln.startswith("RESULT "):
            res = json.loads(ln[7:])
    return spec, sc, res


def run_scenario(col: Collector, sc, shard_no, slot, index, rng, port_base=12000, prop="C05"):
    import copy
    state = rng.getstate()
    spec, sc2, res = _launch(copy.deepcopy(sc), shard_no, slot, index, rng, port_base)
    if res is None or res.get("outcome") in ("watchdog", "harness-error") or (res.get("exception") and res["exception"][0] == "ZMQError"):
        # no verdict (only the wall clock spoke, or the harness could not start): the same scenario is run once more before
        # the case is given up as inconclusive
        col.count("scenarios_rerun_after_inconclusive_attempt")
        rng.setstate(state)
        spec, sc2, res = _launch(copy.deepcopy(sc), shard_no, slot, index, rng, port_base)
    elif sc["kind"] == "none" and res.get("outcome") == "raised" and "retried too many times" in str(res.get("exception")):
        # no fault was injected and the acknowledged layer gave up: a peer did not acknowledge for 20 x 0.8 s of REAL time. On a
        # starved machine that is the machine (each ack travels over a one-shot socket with a 1 s linger), on a healthy one it
        # would be a stalled process, i.e. a defect that shows again: the scenario is run once more and only the second
        # outcome is judged (the first is counted)
        col.count("fault_free_runs_that_gave_up_in_real_time_and_were_rerun")
        col.observe("fault_free_run_gave_up_retrying_in_real_time")
        rng.setstate(state)
        spec, sc2, res = _launch(copy.deepcopy(sc), shard_no, slot, index, rng, port_base)
    sc = sc2
    label = fault_label(sc)
    wit = {"scenario": {k: v for k, v in sc.items()}, "hosts": [(h["id"], h["workers"]) for h in spec["hosts"]], "faults": spec["faults"], "kill": spec.get("kill"),
           "result": {k: v for k, v in (res or {}).items() if k != "events"}}
    col.case(shape=digest(label, sc["shape"], sc.get("role"), sc.get("host"), sc.get("random_job", False)),
             nontrivial=bool(res) and (res.get("fault_fired") or res.get("outcome") == "returned"), sample=wit)
    col.count("scenarios")
    if res is None or res.get("outcome") == "harness-error":
        col.not_reached(f"scenario {label} produced no result: {(res or {}).get('error', 'timeout')[-300:]}")
        return
    if res.get("exception") and res["exception"][0] == "ZMQError":
        col.not_reached(f"scenario {label}: harness could not bind its ports: {res['exception'][1][:120]}")
        return
    oc = res["outcome"]
    col.count(f"outcome_{oc}")
    if res.get("fault_fired"):
        col.count("faults_fired")
        col.count(f"fault:{label}")
        if sc["kind"] == "kill":
            col.count("kills_fired")
    elif sc["kind"] != "none":
        col.count("faults_not_fired")
    for k, v in res.get("events", {}).items():
        col.count(f"event:{k}", v)
    if oc == "watchdog":
        col.not_reached(f"only the wall-clock watchdog fired in scenario {label}")
        return
    if oc == "hang" and not res.get("fault_fired"):
        # the property speaks about runs in which a task failed or a worker-side process died; a run that stalls although no
        # fault was injected (seen only when the machine is starved: a local fire-and-forget callback() with its 1 s linger is
        # lost) is outside the statement -- it is excluded from the evaluated set and counted, never folded into 'held'
        col.observe("stall_without_any_injected_fault")
        col.count("scenarios_excluded_no_fault_fired")
        return
    if oc == "hang":
        col.violation(f"hang:{label}", f"the run neither returned nor raised: {res['hang']}; fault fired: {res.get('fault_fired')}", wit, index)
        return
    if oc == "returned" and res.get("values_ok") is False:
        col.violation(f"returned-with-wrong-or-missing-value:{label}" if prop == "C05" else "real-cluster:value-differs-from-sequential-evaluation", f"{res.get('bad_values')}", wit, index)
        return
    if prop == "C01":
        col.count("real_cluster_runs")
        if oc == "returned":
            col.count("real_cluster_outputs_compared", len(spec["job"]["ext"]))
        elif oc == "raised":
            col.violation("real-cluster:run-raised-without-any-fault", f"{res.get('exception')}", wit, index)
        return
    leaks = res.get("leaks") or {}
    if leaks.get("processes"):
        col.violation(f"leak:processes:{label}", f"processes still alive {leaks['polls'] * 0.25:.0f} s after the run ended: {leaks['processes']}", wit, index)
        return
    if leaks.get("segments"):
        if sc["kind"] == "kill" and sc["what"] == "shm":
            # keyed by cause, not by signal or moment: nobody unlinks what a killed shm server held
            col.violation("leak:shm-segments:shm-server-killed-while-holding-datasets", f"{label}: /dev/shm segments left behind: {leaks['segments']}", wit, index)
        else:
            col.violation(f"leak:shm-segments:{label}", f"/dev/shm segments left behind: {leaks['segments']}", wit, index)
        return
    col.count("audits_clean")


def run_shard(spec, col: Collector):
    seed, shard = spec["seed"], spec["shard"]
    shard_no = spec["shard_no"]
    rng0 = case_rng(seed, "c05-enum", 0)
    allsc = enumerate_scenarios(spec["tier"], rng0)
    rng0.shuffle(allsc)
    mine = allsc[shard_no::spec["nshards"]]
    if spec["tier"] == "quick":
        # covering subset: every shard runs one task fault (how x when cycling, roles/shapes rotating with the seed), one helper kill,
        # and either a fault-free run (cleanup after normal completion) or a second task fault
        k = shard_no + seed
        tf = [sc for sc in allsc if sc["kind"] == "task"]
        pairs = [(h, w) for h in HOWS for w in WHENS]
        h, w = pairs[k % len(pairs)]
        role = "middle" if w == "mid" else ROLES[(k // 3) % 4]
        first = {"kind": "task", "how": h, "when": w, "role": role, "shape": SHAPES[k % 4]}
        what, sig, at = KILLS[k % len(KILLS)]
        shape = SHAPES[(k // 2) % 4]
        second = {"kind": "kill", "what": what, "signal": sig, "at": at, "shape": shape, "host": (shape[0] - 1) if k % 2 else 0}
        if shard_no < 4:
            third = {"kind": "none", "shape": SHAPES[shard_no]}
            if shard_no % 2 == 0:
                third["slow_before_shutdown_s"] = 6      # normal completion with a controller that is slow to shut the cluster down
        else:
            h2, w2 = pairs[(k * 7 + 5) % len(pairs)]
            third = {"kind": "task", "how": h2, "when": w2, "role": "middle" if w2 == "mid" else ROLES[k % 4], "shape": SHAPES[(k + 1) % 4]}
        h3, w3 = pairs[(k * 3 + 11) % len(pairs)]
        fourth = {"kind": "task", "how": h3, "when": w3, "role": "middle" if w3 == "mid" else ROLES[(k + 2) % 4], "shape": SHAPES[(k + 2) % 4]}
        what5, sig5, at5 = KILLS[(k + 6) % len(KILLS)]
        fifth = {"kind": "kill", "what": what5, "signal": sig5, "at": at5, "shape": SHAPES[(k + 3) % 4], "host": 0}
        mine = [first, second, third, fourth, fifth][: max(1, spec["n"])]
    else:
        extra = []
        rng = case_rng(seed, shard, "extra")
        for i in range(spec["n_random"]):
            sc = dict(rng.choice(allsc))
            sc["random_job"] = sc["kind"] != "kill"
            extra.append(sc)
        mine = mine + extra
    for i, sc in enumerate(mine):
        if col.out_of_time():
            break
        if col.want(i):
            guarded(col, i, run_scenario, col, dict(sc), shard_no, i % 8, i, case_rng(seed, shard, i))


def plan(tier, seed, scale=1.0):
    q = tier == "quick"
    nsh = 8   # real clusters: ~11 processes per scenario; more concurrent scenarios than that starve the 16 cores and the starvation itself loses local messages
    return [dict(shard=f"r{c}", shard_no=c, nshards=nsh, n=max(1, int(5 * scale)), n_random=int(40 * scale), budget_s=150 if q else 1500, timeout_s=320 if q else 2400,
                 hash_seed=(seed * 79 + c) % 4294967295) for c in range(nsh)]
