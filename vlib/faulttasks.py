"""Task bodies and in-process hooks for the RealCluster engine (E2): symbolic values as in jobgen, plus injected faults.

Everything here is module level so that callables pickle by reference and the hooks installed in the executor process
before fork are inherited by workers, data server and shm server.
"""

from __future__ import annotations

import os
import signal
import sys
import time

from vlib.jobgen import sym_value

LOG = os.environ.get("VERIF_EVLOG", "")
PENDING = None  # (ds repr, when, how) armed by a task body, consumed by the notice wrapper in the same worker process


def log(kind, *detail):
    path = os.environ.get("VERIF_EVLOG", "")
    if not path:
        return
    line = f"{time.monotonic():.4f} {kind} {os.getpid()} {' '.join(str(d) for d in detail)}\n"
    fd = os.open(path, os.O_WRONLY | os.O_APPEND | os.O_CREAT, 0o644)
    try:
        os.write(fd, line.encode())
    finally:
        os.close(fd)


def do(how):
    log("fault-injected", how)
    if how == "raise":
        raise RuntimeError("injected task failure")
    if how == "exit0":
        sys.exit(0)
    if how == "exit3":
        sys.exit(3)
    if how == "_exit1":
        os._exit(1)
    if how == "sigkill":
        os.kill(os.getpid(), signal.SIGKILL)
        time.sleep(5)
    raise AssertionError(how)


def ft_task(tid, fault, sleep_s, *args, **kwargs):
    global PENDING
    log("body-enter", tid)
    if sleep_s:
        time.sleep(sleep_s)
    if fault and fault["when"] == "start":
        do(fault["how"])
    if fault and fault["when"] in ("before_notice", "after_notice", "mid_publish"):
        PENDING = (fault["ds"], fault["when"], fault["how"])
    v = sym_value(tid, 0, args, kwargs)
    log("body-exit", tid)
    return v


def ft_gen(tid, nout, fault, sleep_s, *args, **kwargs):
    global PENDING
    log("body-enter", tid)
    if sleep_s:
        time.sleep(sleep_s)
    if fault and fault["when"] == "start":
        do(fault["how"])
    if fault and fault["when"] in ("before_notice", "after_notice", "mid_publish"):
        PENDING = (fault["ds"], fault["when"], fault["how"])
    for i in range(nout):
        if fault and fault["when"] == "mid" and i == max(1, nout // 2):
            do(fault["how"])
        yield sym_value(tid, i, args, kwargs)
    log("body-exit", tid)


def make_fault_callable(faults, sleeps):
    import functools

    def factory(tid, nout, returns_none=False):
        f = faults.get(tid)
        s = sleeps.get(tid, 0)
        if nout == 1:
            return functools.partial(ft_task, tid, f, s)
        return functools.partial(ft_gen, tid, nout, f, s)
    return factory


def install_executor_hooks():
    """Called in the executor process before Executor(...) is constructed (so forked children inherit everything)."""
    import cascade.executor.executor as executor_mod
    import cascade.executor.runner.entrypoint as entrypoint
    import cascade.executor.runner.memory as memory
    from cascade.executor.msg import DatasetPublished

    real_cb = memory.callback

    def notice_wrapper(address, msg):
        global PENDING
        f = PENDING
        if f and isinstance(msg, DatasetPublished) and repr(msg.ds) == f[0]:
            PENDING = None
            if f[1] == "before_notice":
                do(f[2])
            real_cb(address, msg)
            if f[1] == "after_notice":
                do(f[2])
            return
        real_cb(address, msg)

    memory.callback = notice_wrapper

    # fault point "mid_publish": between the shm allocation of the output and its close callback (the store keeps the dataset in
    # status 'created' for good -- its writer is gone)
    from cascade.executor.runner.memory import ds2shmid
    from cascade.low.core import DatasetId
    real_allocate = memory.shm_client.allocate

    def allocate_wrapper(key, l, deser_fun, *a, **k):  # noqa: E741
        global PENDING
        buf = real_allocate(key, l, deser_fun, *a, **k)
        f = PENDING
        if f and f[1] == "mid_publish":
            t, o = f[0].rsplit(".", 1)
            if key == ds2shmid(DatasetId(t, o)):
                PENDING = None
                do(f[2])
        return buf

    class _ShmClient:
        def __getattr__(self, name):
            return allocate_wrapper if name == "allocate" else getattr(real_shm_client, name)
    real_shm_client = memory.shm_client
    memory.shm_client = _ShmClient()

    real_exec = entrypoint.execute_sequence

    def exec_wrapper(taskSequence, mem, pckg, runnerContext):
        log("seq-start", repr(taskSequence.worker), ",".join(taskSequence.tasks))
        try:
            return real_exec(taskSequence, mem, pckg, runnerContext)
        finally:
            log("seq-end", repr(taskSequence.worker), ",".join(taskSequence.tasks))

    entrypoint.execute_sequence = exec_wrapper

    real_hc = executor_mod.Executor.healthcheck

    def hc_wrapper(self):
        log("hc", self.host)
        return real_hc(self)

    executor_mod.Executor.healthcheck = hc_wrapper
