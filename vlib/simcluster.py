"""E1 -- SimCluster: the real controller (controller.impl.run, notify, act, scheduler.*) against SimBridge, an executable
nondeterministic model of the executors that records ground truth, with online trace monitors for C01-C04.

Orders the model allows are those the transports allow: commands to one host's message socket are FIFO, commands to
its data socket are FIFO, a purge reaches the data server through the executor (a third hop, unordered with the data
commands), payloads are unordered with everything, events of one origin (each worker, each data server) are FIFO
(except in the separate "reorder" scenario class).
"""

from __future__ import annotations

import traceback
from collections import deque

from vlib.common.core import digest


class SimStuck(Exception):
    pass


class SpinDetected(Exception):
    pass


class SimAbort(Exception):
    """The model observed something after which the real cluster would have failed (e.g. transmit of a missing dataset)."""


class Viol:
    def __init__(self):
        self.items: list[tuple[str, str, str]] = []  # (property, mechanism, message)

    def add(self, prop, mech, msg):
        self.items.append((prop, mech, msg))


class SimMemory:
    """provide/handle/flush like runner.memory.Memory, backed by the host store of the model (values cross through the real serde)."""

    def __init__(self, bridge, worker):
        self.bridge, self.worker = bridge, worker

    def provide(self, inputId, annotation):
        import cascade.executor.serde as serde
        st = self.bridge.store[self.worker.host]
        if inputId not in st:
            raise KeyError(f"dataset {inputId!r} is not in the store of host {self.worker.host}")
        raw, deser_fun = st[inputId]
        return serde.des_output(raw, annotation, deser_fun)

    def handle(self, outputId, outputSchema, outputValue, isPublish):
        import cascade.executor.serde as serde
        from cascade.executor.msg import DatasetPublished
        raw, deser_fun = serde.ser_output(outputValue, outputSchema)
        b = self.bridge
        if b.incremental and b.emitting_for == self.worker:
            # a generator yields over time: this output becomes visible (stored, announced) only when the model releases it
            b.pending_out[self.worker].append((outputId, raw, deser_fun, isPublish))
            return
        b.store[self.worker.host][outputId] = (raw, deser_fun)
        b.ever_produced.add(outputId)
        b.produced_at.setdefault(outputId, set()).add(self.worker.host)
        if isPublish:
            b.enqueue_event(("w", self.worker), DatasetPublished(origin=self.worker, ds=outputId, transmit_idx=None))

    def flush(self):
        pass


class SimBridge:
    def __init__(self, js, job, env, rng, policy: str, reorder: bool = False):
        from cascade.executor.runner.entrypoint import RunnerContext
        from cascade.low.core import DatasetId
        from cascade.low.views import param_source
        self.js, self.job, self.env, self.rng, self.policy, self.reorder = js, job, env, rng, policy, reorder
        self.hosts = sorted({w.host for w in env.workers})
        self.store = {h: {} for h in self.hosts}
        self.invalid = {h: set() for h in self.hosts}
        self.msgq = {h: deque() for h in self.hosts}
        self.dataq = {h: deque() for h in self.hosts}
        self.purgeq = {h: deque() for h in self.hosts}
        self.payloads: list = []           # in flight, unordered
        self.inbox = {w: deque() for w in env.workers}
        self.evq: dict = {}
        self.param_source = param_source(job.edges)
        self.rc = {w: RunnerContext(workerId=w, job=job, callback="sim://", param_source=self.param_source) for w in env.workers}
        self.idx = 0
        self.V = Viol()
        # ground truth / monitors' state
        self.dispatched: dict[str, object] = {}
        self.executed: set[str] = set()
        self.ever_produced: set = set()
        self.produced_at: dict = {}
        self.unfinished: dict = {w: 0 for w in env.workers}   # accepted sequences not finished
        # incremental class: the outputs of a multi-output task appear one at a time, with arbitrary other actions (and controller
        # rounds) in between -- the task is still running until its last output has been released
        self.incremental = rng.random() < 0.4
        self.pending_out: dict = {w: [] for w in env.workers}
        self.pending_task: dict = {}
        self.emitting_for = None
        self.transmit_cmds: dict = {}       # idx -> (ds, src, dst, answered)
        self.fetch_cmds: dict = {}          # idx -> (ds, src, answered)
        self.purges_issued: dict = {}       # (host, ds) -> True
        self.payload_returned: set = set()  # requested outputs whose payload reached the controller
        self.consumers: dict = {}
        for e in job.edges:
            self.consumers.setdefault(e.source, set()).add(e.sink_task)
        self.ext = set(job.ext_outputs)
        self.n_events = 0
        self.n_calls = 0
        self.trace: list = []
        self.shutdowns = 0
        self.calls_after_shutdown = 0
        self.order_digest = []
        self.DatasetId = DatasetId

    # ------------------------------------------------------------------------------------------------
    def log(self, *a):
        if len(self.trace) < 4000:
            self.trace.append([str(x) for x in a])

    def enqueue_event(self, origin, ev):
        self.evq.setdefault(origin, deque()).append(ev)

    # ---- the Bridge interface used by the controller -----------------------------------------------------
    def get_environment(self):
        return self.env

    def _call(self):
        self.n_calls += 1
        if self.shutdowns:
            self.calls_after_shutdown += 1

    def task_sequence(self, ts):
        self._call()
        self.log("task_sequence", ts.worker, ts.tasks)
        w = ts.worker
        V = self.V
        if w not in self.env.workers:
            V.add("C02", "dispatch-to-unknown-worker", f"{ts.tasks} sent to {w!r} which is not in the environment")
            raise SimAbort("unknown worker")
        if self.unfinished[w] > 0:
            V.add("C02", "dispatch-to-busy-worker", f"{ts.tasks} sent to {w!r} whose previous sequence has not finished")
        for t in ts.tasks:
            if t in self.dispatched:
                V.add("C02", "task-dispatched-twice", f"task {t} sent to {w!r}, earlier to {self.dispatched[t]!r}")
            self.dispatched[t] = w
            if self.job.tasks[t].definition.needs_gpu and self.env.workers[w].gpu == 0:
                V.add("C02", "gpu-task-on-cpu-worker", f"task {t} needs a GPU, worker {w!r} has none")
        produced_inside = {self.DatasetId(t, o) for t in ts.tasks for o in self.job.tasks[t].definition.output_schema}
        for t in ts.tasks:
            for ds in self.param_source[t].values():
                if ds in produced_inside:
                    continue
                if ds not in self.ever_produced:
                    V.add("C02", "dispatch-before-input-produced", f"task {t} dispatched although its input {ds!r} has not been produced anywhere")
                here = ds in self.store[w.host]
                commanded = any(c[0] == ds and c[2] == w.host for c in self.transmit_cmds.values())
                if (w.host, ds) in self.purges_issued:
                    V.add("C04", "dropped-dataset-needed-again", f"task {t} dispatched to {w.host} after {ds!r} was purged there")
                elif not here and not commanded:
                    V.add("C02", "dispatch-without-input-or-transfer", f"task {t} dispatched to {w!r}: input {ds!r} is neither on {w.host} nor commanded to be transferred there")
        self.unfinished[w] += 1
        self.msgq[w.host].append(("ts", ts))

    def purge(self, host, ds):
        self._call()
        self.log("purge", host, ds)
        V = self.V
        for c in self.consumers.get(ds, ()):
            if c not in self.executed:
                V.add("C04", "purge-before-consumer-finished", f"purge({host}, {ds!r}) while consumer {c} has not completed")
        if ds in self.ext and ds not in self.payload_returned:
            V.add("C04", "purge-before-requested-output-delivered", f"purge({host}, {ds!r}): the caller asked for it and its value has not reached the controller")
        for idx, (d, src, dst, answered) in self.transmit_cmds.items():
            if d == ds and src == host and not answered:
                V.add("C04", "purge-while-transfer-unanswered", f"purge({host}, {ds!r}) while transmit #{idx} {src}->{dst} is unanswered")
        for idx, (d, src, answered) in self.fetch_cmds.items():
            if d == ds and src == host and not answered:
                V.add("C04", "purge-while-fetch-unanswered", f"purge({host}, {ds!r}) while fetch #{idx} from {src} is unanswered")
        self.purges_issued[(host, ds)] = True
        self.msgq[host].append(("purge", ds))

    def _check_source(self, kind, ds, source):
        V = self.V
        if (source, ds) in self.purges_issued:
            V.add("C04", f"{kind}-after-purge", f"{kind}({ds!r}, source={source}) after the dataset was purged there")
        elif ds not in self.store.get(source, {}):
            V.add("C04", f"{kind}-from-host-without-dataset", f"{kind}({ds!r}, source={source}): the source does not hold the dataset at this moment")

    def transmit(self, ds, source, target):
        self._call()
        self.log("transmit", ds, source, target)
        self._check_source("transmit", ds, source)
        idx = self.idx
        self.idx += 1
        self.transmit_cmds[idx] = [ds, source, target, False]
        self.dataq[source].append(("transmit", ds, target, idx))

    def fetch(self, ds, source):
        self._call()
        self.log("fetch", ds, source)
        self._check_source("fetch", ds, source)
        idx = self.idx
        self.idx += 1
        self.fetch_cmds[idx] = [ds, source, False]
        self.dataq[source].append(("fetch", ds, idx))

    def shutdown(self):
        self.shutdowns += 1
        self.log("shutdown")

    # ---- the executors' side ---------------------------------------------------------------------------
    def enabled_actions(self):
        acts = []
        for h in self.hosts:
            if self.msgq[h]:
                acts.append(("msg", h))
            if self.dataq[h]:
                acts.append(("data", h))
            if self.purgeq[h]:
                acts.append(("purge", h))
        for i in range(len(self.payloads)):
            acts.append(("payload", i))
        for w, q in self.inbox.items():
            if q and self.can_start(w, q[0]) and not self.pending_out[w]:
                acts.append(("run", w))
        for w, pend in self.pending_out.items():
            if pend:
                acts.append(("emit", w))
        return acts

    def required(self, ts):
        inside = {self.DatasetId(t, o) for t in ts.tasks for o in self.job.tasks[t].definition.output_schema}
        return {ds for t in ts.tasks for ds in self.param_source[t].values()} - inside

    def can_start(self, w, ts):
        return all(ds in self.store[w.host] for ds in self.required(ts))

    def do(self, act):
        from cascade.executor.msg import DatasetPublished, DatasetTransmitPayload, DatasetTransmitPayloadHeader, TaskSequence
        kind, arg = act
        self.order_digest.append(kind[0])
        if kind == "msg":
            m = self.msgq[arg].popleft()
            if m[0] == "ts":
                ts = m[1]
                for ds in self.required(ts):
                    if ds in self.invalid[ts.worker.host] and ds not in self.store[ts.worker.host]:
                        self.V.add("C04", "input-purged-before-consumer-ran", f"{ts.tasks} reached {ts.worker!r} but input {ds!r} had been purged on that host")
                        raise SimAbort("input purged")
                self.inbox[ts.worker].append(ts)
            else:
                self.purgeq[arg].append(m[1])
        elif kind == "purge":
            ds = self.purgeq[arg].popleft()
            self.store[arg].pop(ds, None)
            self.invalid[arg].add(ds)
        elif kind == "data":
            m = self.dataq[arg].popleft()
            ds = m[1]
            if ds not in self.store[arg]:
                what = "purged" if ds in self.invalid[arg] else "never present"
                self.V.add("C04", f"{m[0]}-command-finds-dataset-missing", f"{m[0]} of {ds!r} reached the data server of {arg} where it is {what} (the real data server fails here)")
                raise SimAbort("transmit of missing dataset")
            raw, deser_fun = self.store[arg][ds]
            if m[0] == "transmit":
                self.payloads.append(("host", m[2], ds, raw, deser_fun, m[3]))
            else:
                self.payloads.append(("controller", None, ds, raw, deser_fun, m[2]))
        elif kind == "payload":
            dest, target, ds, raw, deser_fun, idx = self.payloads.pop(arg)
            if dest == "controller":
                hdr = DatasetTransmitPayloadHeader(confirm_address="sim://", confirm_idx=idx, ds=ds, deser_fun=deser_fun)
                self.enqueue_event(("p", idx), DatasetTransmitPayload(header=hdr, value=raw))
            else:
                # the transfer is *answered* once the target has processed the payload: it emits the announcement
                # (or drops a redundant / late payload). The announcement may still be queued behind other origins'
                # events when the controller learns of the consumer's completion -- that order is legitimate.
                self.transmit_cmds[idx][3] = True
                if ds in self.invalid[target]:
                    pass  # payload after purge: discarded
                elif ds in self.store[target]:
                    pass  # redundant transfer: nothing stored, nothing announced ("conflict => already present")
                else:
                    self.store[target][ds] = (raw, deser_fun)
                    self.enqueue_event(("h", target), DatasetPublished(origin=target, ds=ds, transmit_idx=idx))
        elif kind == "run":
            import cascade.executor.runner.runner as runner
            ts = self.inbox[arg].popleft()
            mem = SimMemory(self, arg)
            ctx = self.rc[arg].project(ts)
            slow = self.incremental and len(ts.tasks) == 1 and len(self.job.tasks[ts.tasks[0]].definition.output_schema) > 1
            for t in ts.tasks:
                if t in self.executed:
                    self.V.add("C02", "task-executed-twice", f"task {t} executed a second time on {arg!r}")
                self.emitting_for = arg if slow else None
                try:
                    runner.run(t, ctx, mem)
                except Exception as e:  # noqa: BLE001 -> the real worker reports TaskFailure, the bridge raises
                    self.task_failure = (t, e, traceback.format_exc()[-600:])
                    raise SimAbort(f"TaskFailure {t}: {e!r}")
                finally:
                    self.emitting_for = None
                if slow and self.pending_out[arg]:
                    self.pending_task[arg] = t      # still running: finished when its last output has been released
                    return
                self.executed.add(t)
            self.unfinished[arg] -= 1
        elif kind == "emit":
            outputId, raw, deser_fun, isPublish = self.pending_out[arg].pop(0)
            self.store[arg.host][outputId] = (raw, deser_fun)
            self.ever_produced.add(outputId)
            self.produced_at.setdefault(outputId, set()).add(arg.host)
            if isPublish:
                self.enqueue_event(("w", arg), DatasetPublished(origin=arg, ds=outputId, transmit_idx=None))
            if not self.pending_out[arg]:
                self.executed.add(self.pending_task.pop(arg))
                self.unfinished[arg] -= 1
        else:
            raise AssertionError(kind)

    def pick(self, acts):
        p = self.policy
        rng = self.rng
        if p == "late":  # transfers, fetches and purges starve until nothing else is enabled
            first = [a for a in acts if a[0] in ("msg", "run")]
            return rng.choice(first or acts)
        if p == "skewed":
            h0 = self.hosts[0]
            pref = [a for a in acts if (a[0] in ("msg", "data", "purge") and a[1] == h0) or (a[0] == "run" and a[1].host == h0)]
            return rng.choice(pref) if pref and rng.random() < 0.8 else rng.choice(acts)
        if p == "purge-first":
            pref = [a for a in acts if a[0] in ("purge", "msg")]
            return rng.choice(pref or acts)
        if p == "data-first":
            pref = [a for a in acts if a[0] in ("data", "payload")]
            return rng.choice(pref or acts)
        return rng.choice(acts)

    def pop_event(self):
        origins = [o for o, q in self.evq.items() if q]
        if not origins:
            return None
        o = self.rng.choice(origins)
        q = self.evq[o]
        if self.reorder and len(q) > 1 and self.rng.random() < 0.5:
            i = self.rng.randrange(min(len(q), 3))
            ev = q[i]
            if i and self.is_completion_notice(ev) and any(getattr(x, "ds", None) is not None and x.ds.task == ev.ds.task for x in list(q)[:i]):
                self.reordered = True  # a task's completion notice overtakes the notice of one of its earlier outputs
            elif i:
                self.other_reorders += 1
            del q[i]
        else:
            ev = q.popleft()
        return ev

    reordered = False
    other_reorders = 0
    task_failure = None

    def is_completion_notice(self, ev) -> bool:
        ds = getattr(ev, "ds", None)
        if ds is None or getattr(ev, "transmit_idx", None) is not None:
            return False
        return list(self.job.tasks[ds.task].definition.output_schema)[-1] == ds.output   # declared == key-sorted order (jobgen)

    def recv_events(self):
        from cascade.executor.msg import DatasetPublished
        self._call()
        batch = []
        eager = self.policy == "eager"
        lazy = self.policy == "lazy"
        steps = 0
        while True:
            acts = self.enabled_actions()
            have_events = any(q for q in self.evq.values())
            if not acts and not have_events:
                if batch:
                    break
                raise SimStuck("recv_events entered with no queued event and no enabled executor action")
            # choose between running an executor action and delivering an event
            if acts and (eager or not have_events or self.rng.random() < 0.6):
                try:
                    self.do(self.pick(acts))
                except SimAbort:
                    self.shutdown()
                    raise ValueError("simulated cluster failure")
                steps += 1
                continue
            ev = self.pop_event()
            batch.append(ev)
            if lazy:
                break
            if not eager and self.rng.random() < 0.5:
                break
            if eager and not self.enabled_actions() and not any(q for q in self.evq.values()):
                break
        for ev in batch:
            self.n_events += 1
            if isinstance(ev, DatasetPublished):
                self.log("event", "published", ev.ds, ev.origin, ev.transmit_idx)
            else:
                self.log("event", "payload", ev.header.ds)
                self.fetch_cmds[ev.header.confirm_idx][2] = True
                self.payload_returned.add(ev.header.ds)
        return batch


POLICIES = ["uniform", "uniform", "eager", "lazy", "late", "skewed", "purge-first", "data-first"]


def run_case(js, env_desc, rng, policy, reorder=False, max_rounds_slack=2):
    """Runs the real controller against the model. Returns dict(result)."""
    import cascade.controller.impl as impl
    import cascade.scheduler.graph as sgraph
    from vlib.jobgen import build_env, build_job, reference_eval
    job = build_job(js)
    env = build_env(env_desc)
    bridge = SimBridge(js, job, env, rng, policy, reorder)
    pre = sgraph.precompute(job)
    rounds = [0]
    idle_rounds = [0]
    last_calls = [0]
    real_flush = impl.flush_queues

    def counting_flush(b, state):
        rounds[0] += 1
        st = real_flush(b, state)
        if bridge.n_calls == last_calls[0] and not (state.ongoing_total > 0 or (None in state.outputs.values())):
            idle_rounds[0] += 1
            if idle_rounds[0] >= 1000:
                raise SpinDetected("1000 consecutive rounds without any command and without waiting")
        else:
            idle_rounds[0] = 0
        last_calls[0] = bridge.n_calls
        return st

    impl.flush_queues = counting_flush
    out = {"bridge": bridge, "state": None, "exc": None, "rounds": 0}
    try:
        out["state"] = impl.run(job, bridge, pre)
    except SimStuck as e:
        out["exc"] = ("stuck", e, "")
    except SpinDetected as e:
        out["exc"] = ("spin", e, "")
    except Exception as e:  # noqa: BLE001
        out["exc"] = ("raised", e, traceback.format_exc()[-1500:])
    finally:
        impl.flush_queues = real_flush
    out["rounds"] = rounds[0]
    V = bridge.V
    T = len(js["order"])
    none_requested = [d for d in js["ext"] if js["tasks"][d[0]].get("returns_none")]
    tag = ":requested-output-value-is-None" if none_requested else ""
    rtag = ":completion-notice-overtakes-output-notice" if bridge.reordered else ""
    kind = out["exc"][0] if out["exc"] else None
    if kind == "stuck":
        V.add("C03", f"controller-waits-with-nothing-outstanding{tag}{rtag}", f"{out['exc'][1]}; executed {len(bridge.executed)}/{T} tasks, dispatched {len(bridge.dispatched)}/{T}")
        if none_requested:
            V.add("C01", "requested-output-value-is-None", f"requested output {none_requested[0]} has value None and is never delivered (run does not return)")
    elif kind == "spin":
        V.add("C03", "controller-spins", str(out["exc"][1]))
    elif kind == "raised":
        e = out["exc"][1]
        if bridge.task_failure is not None:
            t, te, tb = bridge.task_failure
            V.add("C01", f"task-failed-in-model:{type(te).__name__}", f"task {t} raised {te!r:.200} inside the real runner")
        elif isinstance(e, SimAbort) or (isinstance(e, ValueError) and str(e) == "simulated cluster failure"):
            pass  # the cause was recorded by the monitor that aborted
        else:
            V.add("C03", f"controller-raises-{type(e).__name__}{rtag}", f"run raised {e!r:.200}\n{out['exc'][2][-700:]}")
            # nothing failed in the (model) cluster and the run delivered nothing: that is also C01's "every requested dataset is
            # delivered", as in the real-cluster slice
            V.add("C01", f"run-raised-without-any-fault:{type(e).__name__}{rtag}", f"run raised {e!r:.200} although no task failed and no process died: no requested dataset was delivered")
    else:
        state = out["state"]
        if bridge.shutdowns != 1:
            V.add("C03", "shutdown-count", f"Bridge.shutdown called {bridge.shutdowns} times")
        if bridge.calls_after_shutdown:
            V.add("C03", "commands-after-shutdown", f"{bridge.calls_after_shutdown} bridge calls after shutdown")
        if len(bridge.executed) != T or len(bridge.dispatched) != T:
            missing = [t for t in js["order"] if t not in bridge.dispatched][:5]
            V.add("C03", f"returns-with-tasks-never-executed{rtag}", f"run returned with {len(bridge.executed)}/{T} tasks executed; never dispatched: {missing}")
            V.add("C02", f"task-never-dispatched{rtag}", f"run returned but tasks {missing} were never dispatched")
        if out["rounds"] > bridge.n_events + T + max_rounds_slack:
            V.add("C03", "too-many-rounds", f"{out['rounds']} scheduling rounds for {bridge.n_events} events and {T} tasks")
        ref = reference_eval(js)
        from cascade.low.core import DatasetId
        want = {DatasetId(t, o) for (t, o) in js["ext"]}
        if set(state.outputs) != want:
            V.add("C01", "outputs-keys-differ", f"state.outputs has {sorted(map(repr, state.outputs))[:6]}, requested {sorted(map(repr, want))[:6]}")
        for (t, o) in js["ext"]:
            got = state.outputs.get(DatasetId(t, o), "<absent>")
            exp = ref[(t, o)]
            if got is None and exp is not None:
                V.add("C01", "requested-output-not-delivered", f"{t}.{o} is None in the returned state")
                V.add("C03", "returns-with-output-not-fetched", f"{t}.{o}")
            elif got != exp:
                V.add("C01", "value-differs-from-sequential-evaluation", f"{t}.{o}: delivered {got!r:.120}, sequential evaluation gives {exp!r:.120}")
    return out


def interleaving_digest(bridge) -> str:
    return digest("".join(bridge.order_digest)[:400], [t[0] for t in bridge.trace[:200]])
