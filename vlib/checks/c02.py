"""C02 -- every task is dispatched exactly once, to a free worker, after its inputs exist (engine E1, SimCluster)."""

from vlib.checks._sim import make_plan, run_shard  # noqa: F401

ID = "C02"
LEVEL = "exploration"
MANIFEST = dict(
    engine="E1-simcluster", engine_path="vlib/simcluster.py",
    kind="real controller + scheduler against SimBridge (executable nondeterministic model of the executors, seeded adversarial schedulers); task bodies run through the real runner and serde",
    technique="runtime monitoring of the real controller behind the Bridge seam: every Bridge.task_sequence call is checked online against the model's ground truth (task not sent before, worker exists, is free, has a GPU if needed, every input produced, input on the target host or its transfer commanded); the model itself refuses to start a sequence before its inputs are in the host store; at return every task was dispatched",
    text='Held = every dispatch in every run satisfied all clauses; worker-side clause additionally exercised by the worker protocol harness (thorough tier) when built.',
    note="the executors are a model: orders allowed are those the transports allow (FIFO per message socket, FIFO per data socket, purge reaches the data server over a third hop, payloads unordered, per-origin FIFO of events in the default classes).",
)
RULE = 'case = one controller run: generated job DAG x environment (1-4 hosts x 1-4 workers) x scheduler policy x hash seed (see C01); every task_sequence command is one monitor evaluation; non-trivial = >=2 tasks and >=1 edge'
ASSUMPTIONS = ["executors eventually execute every command they were given (fair model)", "per-origin FIFO of events except in the reorder-by-retransmission class"]
REQUIRED_COUNTERS = ['runs', 'commands_task_sequence', 'tasks_executed', 'runs_multi_host', 'commands_transmit']
plan = make_plan("C02", "values", 61)
