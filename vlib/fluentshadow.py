"""E6 -- FluentShadow: NumPy shadow model of fluent programs, program generator and reference graph evaluator.

A program is pure data: a source description plus a list of op descriptors; `run_shadow` executes it on ndarrays
(shape = node dims + inner shape) following the *documented* meaning of each operation, `run_fluent` executes it
through the real earthkit.workflows.fluent API, `evaluate_action` evaluates the resulting graph with an independent
sequential interpreter of the payload convention.
"""

from __future__ import annotations

import copy
from typing import Any

import numpy as np

ANY = "<any>"  # coordinate value that nothing documents (dimension kept by keep_dim=True)


# ---- payload functions (module level: picklable, stable names) -------------------------------------------

def src_array(seed: int, inner_shape: tuple, lo: int = 1, hi: int = 5, as_float: bool = False, dtype: str | None = None):
    rng = np.random.default_rng(seed)
    if dtype == "bool":
        return rng.integers(0, 2, size=inner_shape).astype("bool")
    if dtype in ("int8", "uint8", "int16"):
        return rng.integers(50, 120, size=inner_shape).astype(dtype)      # a few of these overflow the narrow type when added or multiplied
    if as_float:
        return rng.random(size=inner_shape) * 4 + 0.5
    return rng.integers(lo, hi, size=inner_shape).astype("float64")


def affine(x, a=1, b=0):
    return a * x + b


def gen_scaled(x, n=2):
    for i in range(n):
        yield x * (i + 1) + i


# ---- shadow ----------------------------------------------------------------------------------------------

class Shadow:
    def __init__(self, arr: np.ndarray, dims: list[str], coords: dict[str, list]):
        self.arr, self.dims, self.coords = arr, list(dims), {k: list(v) for k, v in coords.items()}

    @property
    def nd(self):
        return len(self.dims)

    @property
    def inner_shape(self):
        return self.arr.shape[self.nd:]

    def size(self, dim):
        return self.arr.shape[self.dims.index(dim)]

    def copy(self):
        return Shadow(self.arr.copy(), self.dims, self.coords)


REDUCTIONS = {"sum": np.sum, "mean": np.mean, "std": np.std, "min": np.min, "max": np.max, "prod": np.prod}
ARITH = {"add": np.add, "subtract": np.subtract, "multiply": np.multiply, "divide": np.divide, "power": np.power}


def shadow_source(src) -> Shadow:
    shape = tuple(len(src["coords"][d]) for d in src["dims"])
    arr = np.empty(shape + tuple(src["inner"]), dtype="float64")
    for idx in np.ndindex(*shape):
        arr[idx] = src_array(src["seed"] + int(np.ravel_multi_index(idx, shape)) if shape else src["seed"], tuple(src["inner"]), as_float=src.get("floats", False), dtype=src.get("dtype"))
    return Shadow(arr, src["dims"], src["coords"])


def shadow_apply(s: Shadow, op: dict, taint_zero_std: bool = False) -> Shadow:
    """taint_zero_std: a std over 1 < batch < n writes NaN ("don't care") wherever the true standard deviation is zero relative
    to the magnitude of the data; NaN then propagates through later operators (used only to attribute a disagreement to the
    recorded finding batched-std-cancellation-at-zero-variance, never to decide that values agree)."""
    k = op["op"]
    if k == "map_affine":
        return Shadow(op["a"] * s.arr + op["b"], s.dims, s.coords)
    if k == "map_array":
        # one payload per node: node at position (i, j, ...) of the node array gets b = its flat C index
        shape = s.arr.shape[: s.nd]
        b = np.arange(int(np.prod(shape)) if shape else 1).reshape(shape if shape else ())
        b = b.reshape(b.shape + (1,) * (s.arr.ndim - s.nd))
        return Shadow(op["a"] * s.arr + b, s.dims, s.coords)
    if k == "reduce":
        ax = s.dims.index(op["dim"])
        arr = REDUCTIONS[op["name"]](s.arr, axis=ax, keepdims=op["keep"])
        if taint_zero_std and op["name"] == "std" and 1 < op["batch"] < s.arr.shape[ax]:
            arr = np.array(arr, dtype="float64")
            scale = np.maximum(1.0, np.abs(np.mean(np.asarray(s.arr, dtype="float64"), axis=ax, keepdims=op["keep"])))
            arr[arr <= 1e-6 * scale] = np.nan
        if op["keep"]:
            return Shadow(arr, s.dims, {**s.coords, op["dim"]: [ANY]})
        return Shadow(arr, [d for d in s.dims if d != op["dim"]], {d: v for d, v in s.coords.items() if d != op["dim"]})
    if k in ("stack", "flatten"):
        ax = s.dims.index(op["dim"])
        inner = s.arr.ndim - s.nd
        arr = np.moveaxis(s.arr, ax, (s.nd - 1) + op["axis"] % (inner + 1))   # a negative axis counts from the end, as in NumPy
        return Shadow(arr, [d for d in s.dims if d != op["dim"]], {d: v for d, v in s.coords.items() if d != op["dim"]})
    if k == "concatenate":
        ax = s.dims.index(op["dim"])
        parts = [np.take(s.arr, i, axis=ax) for i in range(s.arr.shape[ax])]
        arr = np.concatenate(parts, axis=(s.nd - 1) + op["axis"] % (s.arr.ndim - s.nd))
        return Shadow(arr, [d for d in s.dims if d != op["dim"]], {d: v for d, v in s.coords.items() if d != op["dim"]})
    if k == "expand":
        arr = np.moveaxis(s.arr, s.nd + op["internal"] % (s.arr.ndim - s.nd), op["axis"])
        dims = list(s.dims)
        dims.insert(op["axis"], op["dim"])
        return Shadow(arr, dims, {**s.coords, op["dim"]: list(op["values"]) if op.get("values") else list(range(arr.shape[op["axis"]]))})
    if k == "isel":
        ax = s.dims.index(op["dim"])
        if isinstance(op["index"], list):
            return Shadow(np.take(s.arr, op["index"], axis=ax), s.dims, {**s.coords, op["dim"]: [s.coords[op["dim"]][i] for i in op["index"]]})
        return Shadow(np.take(s.arr, op["index"], axis=ax), [d for d in s.dims if d != op["dim"]], {d: v for d, v in s.coords.items() if d != op["dim"]})
    if k == "sel":
        ax = s.dims.index(op["dim"])
        if isinstance(op["value"], list):
            idx = [s.coords[op["dim"]].index(v) for v in op["value"]]
            return Shadow(np.take(s.arr, idx, axis=ax), s.dims, {**s.coords, op["dim"]: list(op["value"])})
        i = s.coords[op["dim"]].index(op["value"])
        return Shadow(np.take(s.arr, i, axis=ax), [d for d in s.dims if d != op["dim"]], {d: v for d, v in s.coords.items() if d != op["dim"]})
    if k == "arith_scalar":
        return Shadow(ARITH[op["name"]](s.arr, op["c"]), s.dims, s.coords)
    if k == "arith_action":
        other = op["other"]["a"] * s.arr + op["other"]["b"]
        return Shadow(ARITH[op["name"]](s.arr, other), s.dims, s.coords)
    if k == "broadcast":
        new = np.repeat(np.expand_dims(s.arr, s.nd), op["size"], axis=s.nd)  # new node axis appended after the node dims
        return Shadow(new, s.dims + [op["newdim"]], {**s.coords, op["newdim"]: list(range(100, 100 + op["size"]))})
    if k == "join_split":
        ax = s.dims.index(op["dim"])
        idx = op["first"] + op["second"]
        return Shadow(np.take(s.arr, idx, axis=ax), s.dims, {**s.coords, op["dim"]: [s.coords[op["dim"]][i] for i in idx]})
    if k == "join_new":
        other = op["other"]["a"] * s.arr + op["other"]["b"]
        return Shadow(np.stack([s.arr, other], axis=0), [op["newdim"]] + s.dims, {**s.coords, op["newdim"]: list(op["values"])})
    if k == "transform":
        parts = [s.arr + c for c in op["params"]]
        dims = list(s.dims)
        dims.insert(op["axis"], op["dim"])
        return Shadow(np.stack(parts, axis=op["axis"]), dims, {**s.coords, op["dim"]: list(op["values"]) if op.get("values") else list(range(len(parts)))})
    if k == "map_gen":
        parts = [s.arr * (i + 1) + i for i in range(op["n"])]
        return Shadow(np.stack(parts, axis=s.nd), s.dims + [op["dim"]], {**s.coords, op["dim"]: list(op["values"])})
    raise AssertionError(k)


def run_shadow(src, ops) -> Shadow:
    s = shadow_source(src)
    for op in ops:
        s = shadow_apply(s, op)
    return s


# ---- fluent side -----------------------------------------------------------------------------------------

def fluent_source(src):
    from earthkit.workflows import fluent
    shape = tuple(len(src["coords"][d]) for d in src["dims"])
    payloads = np.empty(shape, dtype=object)
    for idx in np.ndindex(*shape):
        seed = src["seed"] + int(np.ravel_multi_index(idx, shape)) if shape else src["seed"]
        payloads[idx] = fluent.Payload(src_array, [seed, tuple(src["inner"])], {"as_float": src.get("floats", False), "dtype": src.get("dtype")})
    return fluent.from_source(payloads, dims=list(src["dims"]), coords={d: list(v) for d, v in src["coords"].items()})


def fluent_apply(a, op: dict, batch=None):
    from earthkit.workflows import fluent
    k = op["op"]
    if k == "map_affine":
        return a.map(fluent.Payload(affine, kwargs={"a": op["a"], "b": op["b"]}))
    if k == "map_array":
        shape = tuple(a.nodes.shape)
        pay = np.empty(shape, dtype=object)
        for flat, idx in enumerate(np.ndindex(*shape)):
            pay[idx] = fluent.Payload(affine, kwargs={"a": op["a"], "b": flat})
        if shape == ():
            pay[()] = fluent.Payload(affine, kwargs={"a": op["a"], "b": 0})
        return a.map(pay)
    if k == "reduce":
        b = op["batch"] if batch is None else batch
        return getattr(a, op["name"])(dim=op["dim"], batch_size=b, keep_dim=op["keep"])
    if k == "stack":
        return a.stack(op["dim"], axis=op["axis"])
    if k == "flatten":
        return a.flatten(op["dim"], axis=op["axis"])
    if k == "concatenate":
        return a.concatenate(op["dim"], backend_kwargs={"axis": op["axis"]})
    if k == "expand":
        dim = (op["dim"], list(op["values"])) if op.get("values") else op["dim"]
        return a.expand(dim, op["internal"], dim_size=op["size"], axis=op["axis"])
    if k == "isel":
        return a.isel({op["dim"]: copy.deepcopy(op["index"])})
    if k == "sel":
        return a.sel({op["dim"]: copy.deepcopy(op["value"])})
    if k == "arith_scalar":
        return getattr(a, op["name"])(op["c"])
    if k == "arith_action":
        other = a.map(fluent.Payload(affine, kwargs={"a": op["other"]["a"], "b": op["other"]["b"]}))
        return getattr(a, op["name"])(other)
    if k == "broadcast":
        dims = [str(d) for d in a.nodes.dims] + [op["newdim"]]
        coords = {str(d): list(a.nodes.coords[d].values) for d in a.nodes.dims}
        coords[op["newdim"]] = list(range(100, 100 + op["size"]))
        if op.get("first"):
            dims = [op["newdim"]] + dims[:-1]
        other = fluent_source({"dims": dims, "coords": coords, "inner": (), "seed": op["seed"]})
        return a.broadcast(other)
    if k == "join_split":
        return a.isel({op["dim"]: list(op["first"])}).join(a.isel({op["dim"]: list(op["second"])}), op["dim"])
    if k == "join_new":
        other = a.map(fluent.Payload(affine, kwargs={"a": op["other"]["a"], "b": op["other"]["b"]}))
        return a.join(other, (op["newdim"], list(op["values"])))
    if k == "transform":
        dim = (op["dim"], list(op["values"])) if op.get("values") else op["dim"]
        return a.transform(lambda act, c: act.add(c), [(c,) for c in op["params"]], dim, axis=op["axis"])
    if k == "map_gen":
        return a.map(fluent.Payload(gen_scaled, kwargs={"n": op["n"]}), yields=(op["dim"], list(op["values"])))
    raise AssertionError(k)


def run_fluent(src, ops, batch=None):
    """Returns (action, index of failing op or None, exception or None)."""
    a = fluent_source(src)
    for i, op in enumerate(ops):
        try:
            a = fluent_apply(a, op, (batch or {}).get(i))
        except Exception as e:  # noqa: BLE001
            return None, i, e
    return a, None, None


# ---- generator -------------------------------------------------------------------------------------------

DIM_NAMES = ["x", "y", "z"]


def gen_source(rng, floats=False):
    nd = rng.choice([1, 1, 2, 2, 3])
    dims = DIM_NAMES[:nd]
    coords = {}
    for d in dims:
        n = rng.randint(2, 5)
        kind = rng.choice(["int", "int", "str", "float"])
        if kind == "int":
            start = rng.choice([0, 1, 10])
            coords[d] = [start + i for i in range(n)]
        elif kind == "str":
            coords[d] = [f"{d}{i}" for i in range(n)]
        else:
            coords[d] = [0.5 + i for i in range(n)]
    rank = rng.choice([0, 1, 1, 2, 2, 3])
    inner = tuple(rng.randint(2, 3) for _ in range(rank))
    return {"dims": dims, "coords": coords, "inner": inner, "seed": rng.randrange(10**6), "floats": floats}


def gen_op(rng, s: Shadow, used: set) -> dict | None:
    """One applicable op for the current shadow (sizes >= 2 for every reduced/stacked/concatenated dim)."""
    big = [d for d in s.dims if s.size(d) >= 2]
    inner_rank = len(s.inner_shape)
    total = int(np.prod(s.arr.shape)) if s.arr.size else 0
    choices = ["map_affine", "map_array", "arith_scalar", "arith_action"]
    if big:
        choices += ["reduce", "reduce", "reduce", "stack", "flatten", "isel", "sel", "join_split"]
        if inner_rank >= 1:
            choices += ["concatenate"]
    if inner_rank >= 1 and s.nd <= 2:
        choices += ["expand"]
    if s.nd <= 2 and total <= 200:
        choices += ["broadcast", "join_new", "transform", "map_gen"]
    k = rng.choice(choices)
    free_name = next(n for n in ["p", "q", "r", "u", "v", "w", "t1", "t2", "t3"] if n not in s.dims and n not in used)
    if k == "map_affine":
        return {"op": k, "a": rng.choice([1, 2, 3]), "b": rng.choice([0, 1, 2])}
    if k == "map_array":
        return {"op": k, "a": rng.choice([1, 2, -1])}
    if k == "reduce":
        dim = rng.choice(big)
        n = s.size(dim)
        return {"op": k, "name": rng.choice(list(REDUCTIONS)), "dim": dim, "batch": rng.choice([0, 0, 1, 2, 3, n - 1, n, n + 1]),
                "keep": rng.random() < 0.4}
    if k in ("stack", "flatten"):
        ax = rng.randint(0, inner_rank)
        return {"op": k, "dim": rng.choice(big), "axis": ax - (inner_rank + 1) if rng.random() < 0.25 else ax}
    if k == "concatenate":
        ax = rng.randint(0, inner_rank - 1)
        return {"op": k, "dim": rng.choice(big), "axis": ax - inner_rank if rng.random() < 0.25 else ax}
    if k == "expand":
        internal = rng.randrange(inner_rank)
        size = s.inner_shape[internal]
        vals = [f"e{i}" for i in range(size)] if rng.random() < 0.3 else None
        return {"op": k, "dim": free_name, "internal": internal - inner_rank if rng.random() < 0.25 else internal, "size": size, "axis": rng.randint(0, s.nd), "values": vals}
    if k == "isel":
        dim = rng.choice(big)
        n = s.size(dim)
        if rng.random() < 0.5:
            i = rng.randrange(n)
            return {"op": k, "dim": dim, "index": i - n if rng.random() < 0.25 else i}     # positions may be counted from the end
        idx = rng.sample(range(n), rng.randint(2, n))
        if rng.random() < 0.7:
            idx = sorted(idx)
        if rng.random() < 0.2:
            idx = [i - n for i in idx]
        return {"op": k, "dim": dim, "index": idx}
    if k == "sel":
        dim = rng.choice(big)
        vals = s.coords[dim]
        if ANY in vals:
            return None
        if rng.random() < 0.5:
            return {"op": k, "dim": dim, "value": rng.choice(vals)}
        idx = sorted(rng.sample(range(len(vals)), rng.randint(2, len(vals))))
        return {"op": k, "dim": dim, "value": [vals[i] for i in idx]}
    if k == "arith_scalar":
        name = rng.choice(list(ARITH))
        return {"op": k, "name": name, "c": 2 if name == "power" else rng.choice([1, 2, 4])}
    if k == "arith_action":
        name = rng.choice(["add", "subtract", "multiply", "divide"])
        return {"op": k, "name": name, "other": {"a": rng.choice([1, 2]), "b": rng.choice([1, 2])}}
    if k == "broadcast":
        return {"op": k, "newdim": free_name, "size": rng.randint(2, 3), "seed": rng.randrange(10**6), "first": rng.random() < 0.5}
    if k == "join_split":
        dim = rng.choice(big)
        n = s.size(dim)
        if ANY in s.coords[dim]:
            return None
        cut = rng.randint(1, n - 1)
        idx = list(range(n))
        return {"op": k, "dim": dim, "first": idx[:cut], "second": idx[cut:]}
    if k == "join_new":
        return {"op": k, "newdim": free_name, "values": rng.choice([[0, 1], ["a", "b"]]), "other": {"a": 2, "b": rng.choice([0, 1])}}
    if k == "transform":
        n = rng.randint(2, 3)
        return {"op": k, "dim": free_name, "params": [rng.choice([1, 2, 3, 4]) + i * 5 for i in range(n)], "axis": rng.randint(0, s.nd),
                "values": ([10 * i for i in range(n)] if rng.random() < 0.5 else None)}
    if k == "map_gen":
        n = rng.choice([1, 2, 2, 3, 3])
        return {"op": k, "dim": free_name, "n": n, "values": [f"g{i}" for i in range(n)]}
    return None


def gen_program(rng, depth=3, floats=False):
    src = gen_source(rng, floats)
    s = shadow_source(src)
    ops = []
    used = set()
    for _ in range(rng.randint(1, depth)):
        for _try in range(6):
            op = gen_op(rng, s, used)
            if op is None:
                continue
            try:
                s2 = shadow_apply(s, op)
            except Exception:  # noqa: BLE001 -- not applicable
                continue
            if s2.arr.size > 4000 or not np.all(np.isfinite(s2.arr)) or np.abs(s2.arr).max(initial=0) > 1e12:
                continue
            ops.append(op)
            for key in ("dim", "newdim"):
                if key in op:
                    used.add(op[key])
            s = s2
            break
        if ops and ops[-1]["op"] == "broadcast":
            break  # the order of broadcast dimensions is not documented: nothing position-dependent may follow
    return src, ops


# ---- reference evaluator of Action.graph() ---------------------------------------------------------------

def evaluate_graph(graph) -> dict[int, Any]:
    """Sequential evaluation by the documented payload convention; keyed by id(node) (names may collide)."""
    vals: dict[int, Any] = {}

    def ev(node):
        k = id(node)
        if k in vals:
            return vals[k]
        func, args, kwargs = node.payload
        inputs = {}
        for iname, src in node.inputs.items():
            pv = ev(src.parent)
            inputs[iname] = pv[src.name] if isinstance(pv, dict) else pv
        call_args = [inputs[a] if isinstance(a, str) and a in inputs else a for a in args]
        res = func(*call_args, **kwargs)
        import inspect
        if len(node.outputs) > 1 or inspect.isgenerator(res):
            # a generator's values are what it yields, also when only one output is declared
            seq = list(res)
            if len(seq) != len(node.outputs):
                raise ValueError(f"node {node.name} declared {len(node.outputs)} outputs, generator produced {len(seq)}")
            res = {o: v for o, v in zip(node.outputs, seq)} if len(node.outputs) > 1 else seq[0]
        vals[k] = res
        return res

    for s in graph.sinks:
        ev(s)
    return vals


def action_values(action) -> np.ndarray:
    """Object array (node-array shape) of the values at every coordinate of action.nodes."""
    from earthkit.workflows.graph import Output
    vals = evaluate_graph(action.graph())
    data = action.nodes.data
    out = np.empty(data.shape, dtype=object)
    for idx in np.ndindex(*data.shape):
        el = data[idx]
        if isinstance(el, Output):
            v = vals[id(el.parent)]
            out[idx] = v[el.name] if isinstance(v, dict) else v
        else:
            v = vals[id(el)]
            out[idx] = v["0"] if isinstance(v, dict) else v
    return out


def compare(action, s: Shadow, rtol=1e-9, require_dim_order=True, ignore_nan_expected=False):
    """None if the action denotes the shadow; else (kind, message). ignore_nan_expected: entries whose expected value is NaN are
    "don't care" (see shadow_apply's taint_zero_std)."""
    dims = [str(d) for d in action.nodes.dims]
    if sorted(dims) != sorted(s.dims):
        return "dims", f"dims {dims} != expected {s.dims}"
    if require_dim_order and dims != s.dims:
        return "dim-order", f"dims {dims} != expected order {s.dims}"
    arr = s.arr
    if dims != s.dims:
        perm = [s.dims.index(d) for d in dims] + list(range(s.nd, arr.ndim))
        arr = np.transpose(arr, perm)
    shape = tuple(action.nodes.shape)
    if shape != arr.shape[: len(dims)]:
        return "shape", f"node array shape {shape} != expected {arr.shape[:len(dims)]}"
    for d in dims:
        exp = s.coords[d]
        if ANY in exp:
            continue
        if d not in action.nodes.coords:
            return "coords", f"dimension {d} has no coordinates, expected {exp}"
        got = list(action.nodes.coords[d].values)
        if len(got) != len(exp) or any(g != e for g, e in zip(got, exp)):
            return "coords", f"coords of {d}: {got} != expected {exp}"
    vals = action_values(action)
    for idx in np.ndindex(*shape):
        g = np.asarray(vals[idx], dtype="float64")
        e = arr[idx]
        if g.shape != e.shape:
            return "inner-shape", f"at {idx}: inner shape {g.shape} != expected {e.shape}"
        if ignore_nan_expected:
            e = np.array(e, dtype="float64")
            care = ~np.isnan(e)
            g = np.where(care, g, 0.0)
            e = np.where(care, e, 0.0)
        if not np.allclose(g, e, rtol=rtol, atol=rtol, equal_nan=False):
            kind = "nan" if np.isnan(g).any() and not np.isnan(e).any() else "values"
            bad = ~np.isclose(g, e, rtol=rtol, atol=rtol)
            # "cancellation": every disagreeing entry has a true value of (almost) zero and the result is NaN or tiny
            cancel = bool(np.all(np.abs(e[bad]) <= 1e-6) and np.all(np.isnan(g[bad]) | (np.abs(g[bad]) <= 1e-5)))
            return kind, f"at {idx}: {g.tolist()!r:.120} != expected {e.tolist()!r:.120}", {"cancellation_at_zero": cancel}
    return None
