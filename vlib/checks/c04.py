"""C04 -- data is never purged, transferred or fetched while missing or still needed (engine E1, SimCluster)."""

from vlib.checks._sim import make_plan, run_shard  # noqa: F401

ID = "C04"
LEVEL = "exploration"
MANIFEST = dict(
    engine="E1-simcluster", engine_path="vlib/simcluster.py",
    kind="real controller + scheduler against SimBridge (executable nondeterministic model of the executors, seeded adversarial schedulers); task bodies run through the real runner and serde",
    technique='runtime trace monitor over Bridge calls and returned events: at every purge all consumers have completed in ground truth, a requested output has already reached the controller, no transmit/fetch from that host is unanswered; at every transmit/fetch the source holds the dataset and was not told to purge it; purges and data commands for one host are executed in either order by the model, so a violation also materialises as a data command finding the dataset missing',
    text='Held = no purge/transmit/fetch in any run violated a clause, for all generated jobs (replication and multi-consumer classes over-sampled) and schedules incl. purge-first / data-first / late policies.',
    note="the executors are a model: orders allowed are those the transports allow (FIFO per message socket, FIFO per data socket, purge reaches the data server over a third hop, payloads unordered, per-origin FIFO of events in the default classes).",
)
RULE = 'case = one controller run: generated job DAG x environment (1-4 hosts x 1-4 workers) x scheduler policy x hash seed (see C01); requested outputs that are also consumed (replicated to other hosts), many consumers, consumers on up to 4 hosts; every purge/transmit/fetch is one monitor evaluation; non-trivial = >=2 tasks and >=1 edge'
ASSUMPTIONS = ["executors eventually execute every command they were given (fair model)", "per-origin FIFO of events except in the reorder-by-retransmission class"]
REQUIRED_COUNTERS = ['runs', 'commands_purge', 'commands_transmit', 'commands_fetch', 'runs_multi_host']
plan = make_plan("C04", "data", 71)
