"""E2 (components) for C07: per host one process running the real shm server (child) and the real DataServer.recv_loop;
this process plays controller and executor: it owns each host's message listener, a controller listener for fetches,
pre-loads / reads back the hosts' shm stores, and sends transmit / fetch / purge commands.

Run as: python -m vlib.dataservers <spec.json>   (prints one RESULT line; own session)
"""

from __future__ import annotations

import glob
import json
import os
import random
import sys
import time
import traceback

SPEED = 40


def host_main(h, spec):
    """Runs in a forked child: real shm server + real DataServer with payload / confirmation faults and a fast clock."""
    import logging
    logging.disable(logging.CRITICAL)
    from multiprocessing import get_context
    import cascade.executor.comms as comms
    import cascade.executor.config as cfg
    import cascade.executor.data_server as ds_mod
    import cascade.shm.api as shm_api
    import cascade.shm.client as shm_client
    from cascade.executor.msg import Ack
    from cascade.shm.server import entrypoint as shm_server
    for k in cfg.logging_config["loggers"]:
        cfg.logging_config["loggers"][k]["level"] = "CRITICAL"
    shm_api.publish_client_port(h["shm_port"])
    ctx = get_context("fork")
    slow = (spec.get("slow_shm") or {}) if (spec.get("slow_shm") or {}).get("host") == h.get("index") else {}

    def shm_main():
        if slow:
            # injected delay: this shm server answers its n-th AllocateRequest `delay` real seconds late (a busy store, not a lost
            # datagram); clients must cope with an answer that is merely slow
            import cascade.shm.api as api_
            import cascade.shm.server as srv
            real_respond = srv.LocalServer.respond
            seen = [0]

            def respond(self, comm, address):
                if isinstance(comm, api_.AllocateResponse):
                    seen[0] += 1
                    if seen[0] == slow["nth_allocate"]:
                        with open(os.path.join(spec["tmp"], f"faults-{h['id']}.log"), "a") as f_:
                            f_.write("shm-answer-delayed\n")
                        time.sleep(slow["delay"])
                return real_respond(self, comm, address)
            srv.LocalServer.respond = respond
        shm_server(h["shm_port"], 64 * 1024 * 1024, cfg.logging_config, f"sCasc{h['id']}")
    shm_p = ctx.Process(target=shm_main)
    shm_p.start()
    shm_client.ensure()
    rng = random.Random(f"{spec['seed']}/{h.get('index', h['id'])}")   # by host index: host ids depend on the port block
    plan = spec["plan"]
    drops: dict = {}
    real_time_ns = time.time_ns
    t0 = real_time_ns()
    ds_mod.time_ns = lambda: t0 + (real_time_ns() - t0) * SPEED      # the 4 s confirmation grace costs 0.1 s
    real_recv = comms.Listener.recv_messages

    def fast_recv(self, timeout_ms=1000):
        return real_recv(self, min(timeout_ms, 60) if timeout_ms else timeout_ms)
    comms.Listener.recv_messages = fast_recv
    statlog = os.path.join(spec["tmp"], f"faults-{h['id']}.log")

    def note(s):
        with open(statlog, "a") as f:
            f.write(s + "\n")

    real_send_data = ds_mod.send_data

    def send_data(address, data, syn):
        k = ("p", syn.idx)
        r = rng.random()
        if r < plan["p_drop_payload"] and drops.get(k, 0) < 3:
            drops[k] = drops.get(k, 0) + 1
            note("payload-dropped")
            return
        drops[k] = 0
        n = 1
        if r > 1 - plan["p_dup_payload"]:
            n = rng.randint(2, 3)
            note("payload-duplicated")
        if rng.random() < plan["p_delay"]:
            time.sleep(rng.choice([0.005, 0.02, 0.06]))
            note("payload-delayed")
        for _ in range(n):
            real_send_data(address, data, syn)
        note(f"payload-sent {syn.idx}")
    ds_mod.send_data = send_data

    real_cb = comms.callback

    def cb(address, msg):
        if isinstance(msg, Ack):
            k = ("a", msg.idx)
            if rng.random() < plan["p_drop_ack"] and drops.get(k, 0) < 3:
                drops[k] = drops.get(k, 0) + 1
                note("confirmation-dropped")
                return
            drops[k] = 0
            if rng.random() < plan["p_dup_ack"]:
                note("confirmation-duplicated")
                real_cb(address, msg)
        real_cb(address, msg)
    comms.callback = cb
    server = ds_mod.DataServer(h["maddress"], h["daddress"], h["id"], h["shm_port"], cfg.logging_config)
    # ---- event trace at the data server's own boundary (witness material; also tells a lost notice from a missing one) ----
    from cascade.executor.msg import DatasetPublished as _DP, DatasetPurge as _Purge, DatasetTransmitPayload as _Payload
    evlog = os.path.join(spec["tmp"], f"events-{h['id']}.log")
    ev_t0 = time.time()

    ev_n = [0]

    def ev(s):
        with open(evlog, "a") as f:
            f.write(f"{time.time() - ev_t0:.4f} {s}\n")
        ev_n[0] += 1
    real_store = server.store_payload

    def store_payload(payload):
        ev(f"store-begin {payload.header.ds.task} idx={payload.header.confirm_idx}")
        try:
            return real_store(payload)
        finally:
            ev(f"store-end {payload.header.ds.task} idx={payload.header.confirm_idx}")
    server.store_payload = store_payload
    real_purge = shm_client.purge

    def purge(key, *a, **k):
        ev(f"shm-purge-begin {key}")
        try:
            return real_purge(key, *a, **k)
        finally:
            ev(f"shm-purge-end {key}")
    ds_mod.shm_client.purge = purge
    real_recv2 = server.dlistener.recv_messages

    idle_polls = [0]

    def recv2(timeout_ms=1000):
        ms = real_recv2(timeout_ms)
        idle_polls[0] = 0 if ms else idle_polls[0] + 1     # consecutive polls in which this data server found its socket empty
        for m in ms:
            if isinstance(m, _Payload):
                ev(f"recv-payload {m.header.ds.task} idx={m.header.confirm_idx}")
            elif isinstance(m, _Purge):
                ev(f"recv-purge {m.ds.task}")
            else:
                ev(f"recv-{type(m).__name__} {getattr(m, 'idx', '')}")
        return ms
    server.dlistener.recv_messages = recv2
    cb_prev = comms.callback

    def cb2(address, msg):
        if isinstance(msg, _DP):
            ev(f"announce-called {msg.ds.task} idx={msg.transmit_idx}")
        return cb_prev(address, msg)
    comms.callback = cb2
    ds_mod.callback = cb2
    # the data server's own view of its unfinished transfers, published every 50 ms (read by the harness instead of guessing
    # from silence whether a retransmission is still to come)
    import threading as _thr
    statefile = os.path.join(spec["tmp"], f"state-{h['id']}.json")

    def publish_state():
        n = 0
        while True:
            n += 1
            try:
                st = {"n": n, "awaiting": sorted(int(k) for k in list(server.awaiting_confirmation)), "futs": len(server.futs_in_progress), "idle_polls": idle_polls[0], "ev_n": ev_n[0]}
                with open(statefile + ".tmp", "w") as f:
                    json.dump(st, f)
                os.replace(statefile + ".tmp", statefile)
            except Exception:  # noqa: BLE001 -- a dict changed size while being listed: next round
                pass
            time.sleep(0.05)
    _thr.Thread(target=publish_state, daemon=True, name="verif-state").start()
    import faulthandler
    import signal
    faulthandler.register(signal.SIGUSR1, file=open(os.path.join(spec["tmp"], f"stacks-{h['id']}.txt"), "w"), all_threads=True)   # witness material on demand
    note("ready")
    try:
        server.recv_loop()
    except BaseException as e:  # noqa: BLE001
        note(f"data-server-exit {e!r:.200}")
        raise


def run_scenario(spec):
    import logging
    logging.disable(logging.CRITICAL)
    from multiprocessing import get_context
    import cascade.executor.comms as comms
    import cascade.shm.client as shm_client
    from cascade.executor.msg import DatasetPublished, DatasetPurge, DatasetTransmitCommand, DatasetTransmitFailure, DatasetTransmitPayload
    from cascade.executor.runner.memory import ds2shmid
    from cascade.low.core import DatasetId
    os.makedirs(spec["tmp"], exist_ok=True)
    hosts = spec["hosts"]
    for h_ in hosts:   # leftovers of an earlier, killed scenario with the same host id would collide on segment names
        for s_ in glob.glob(f"/dev/shm/sCasc{h_['id']}*"):
            try:
                os.unlink(s_)
            except OSError:
                pass
    rng = random.Random(f"{spec['seed']}/harness")
    ctx = get_context("fork")
    mlist = {h["id"]: comms.Listener(h["maddress"]) for h in hosts}
    clist = comms.Listener(spec["caddress"])
    procs = {}
    for h in hosts:
        p = ctx.Process(target=host_main, args=(h, spec))
        p.start()
        procs[h["id"]] = p
    byid = {h["id"]: h for h in hosts}
    res = {"violations": [], "notes": [], "stats": {}}

    def use(hid):
        os.environ["CASCADE_SHM_PORT"] = str(byid[hid]["shm_port"])

    # wait until every data server is up
    t0 = time.time()
    while time.time() - t0 < 45:
        if all(os.path.exists(os.path.join(spec["tmp"], f"faults-{h['id']}.log")) for h in hosts):
            break
        time.sleep(0.02)
    else:
        return {"outcome": "harness-error", "error": "data servers did not start"}

    def put(hid, ds, data, deser_fun):
        use(hid)
        buf = shm_client.allocate(ds2shmid(ds), len(data), deser_fun, timeout_sec=5)
        buf.view()[: len(data)] = data
        buf.close()

    def read(hid, ds):
        use(hid)
        try:
            buf = shm_client.get(ds2shmid(ds), timeout_sec=0.6)
        except (ValueError, TimeoutError) as e:  # unknown key -> KeyError repr in error, or wait timeout
            return None
        try:
            return bytes(buf.view()), buf.deser_fun
        finally:
            buf.close()

    datasets = {}
    for d in spec["datasets"]:
        ds = DatasetId(d["task"], "0")
        data = random.Random(d["task"]).randbytes(d["size"])
        datasets[d["task"]] = (ds, data, d["deser_fun"])
        for hid in d["preload"]:
            put(hid, ds, data, d["deser_fun"])
    announcements: dict = {}
    failures: list = []
    fetched: dict = {}

    def pump(duration):
        end = time.time() + duration
        while time.time() < end:
            for hid, l in mlist.items():
                for m in l.recv_messages(5):
                    if isinstance(m, DatasetPublished):
                        announcements.setdefault((m.ds.task, hid), []).append(m.transmit_idx)
                    elif isinstance(m, DatasetTransmitFailure):
                        failures.append((hid, m.detail[:300]))
            for m in clist.recv_messages(5):
                if isinstance(m, DatasetTransmitPayload):
                    fetched.setdefault(m.header.confirm_idx, []).append((m.header.ds.task, bytes(m.value), m.header.deser_fun))

    # commands travel over one persistent PUSH socket per data server (the harness must not lose its own messages:
    # comms.callback() opens a context per call and gives up after a 1 s linger when the machine is busy)
    import zmq
    from cascade.executor.serde import ser_message
    zctx = zmq.Context()
    pushers = {}
    for h in hosts:
        sck = zctx.socket(zmq.PUSH)
        sck.setsockopt(zmq.LINGER, 10000)
        sck.connect(h["daddress"])
        pushers[h["id"]] = sck

    def send(hid, m):
        pushers[hid].send(ser_message(m))

    idx = 0
    expected_ann = {}
    held_before = {(d["task"], hid) for d in spec["datasets"] for hid in d["preload"]}
    purged_at = set()
    transfers = []
    fetches = []
    for c in spec["commands"]:
        ds, data, df = datasets[c["ds"]]
        if c["op"] == "transmit":
            cmd = DatasetTransmitCommand(source=c["src"], target=c["dst"], daddress=byid[c["dst"]]["daddress"], ds=ds, idx=idx)
            send(c["src"], cmd)
            transfers.append((idx, c["ds"], c["src"], c["dst"]))
            idx += 1
        elif c["op"] == "fetch":
            cmd = DatasetTransmitCommand(source=c["src"], target="controller", daddress=spec["caddress"], ds=ds, idx=idx)
            send(c["src"], cmd)
            fetches.append((idx, c["ds"], c["src"]))
            idx += 1
        elif c["op"] == "purge":
            send(c["host"], DatasetPurge(ds=ds))
            purged_at.add((c["ds"], c["host"]))
        pump(c.get("wait", 0.0))
    # ---- drive to logical quiescence --------------------------------------------------------------------------
    # done = every expected announcement / fetched payload has been seen AND every purge the harness sent has been executed
    # by its data server (its event trace shows the shm purge returning). No verdict is taken from the wall clock: while the
    # data servers are still doing something (their fault / event logs grow: retransmissions every 4 virtual = 0.1 real
    # seconds) the harness keeps waiting; only when everything has been silent for QUIET_S (>= 15 confirmation graces) may a
    # transfer that is still missing be called lost. If the servers are still busy at the cap, the scenario is inconclusive.
    QUIET_S, CAP_S = 1.0, spec.get("settle_cap_s", 60.0)
    purges_sent: dict = {}
    for c in spec["commands"]:
        if c["op"] == "purge":
            purges_sent[c["host"]] = purges_sent.get(c["host"], 0) + 1

    def log_sizes():
        tot = 0
        for h in hosts:
            for nm in (f"faults-{h['id']}.log", f"events-{h['id']}.log"):
                try:
                    tot += os.path.getsize(os.path.join(spec["tmp"], nm))
                except OSError:
                    pass
        return tot

    def purges_done():
        for hid, n in purges_sent.items():
            try:
                done = sum(1 for ln in open(os.path.join(spec["tmp"], f"events-{hid}.log")) if " shm-purge-end " in ln)
            except OSError:
                done = 0
            if done < n:
                return False
        return True

    def pending():
        n = 0
        for (i, t, src, dst) in transfers:
            if (t, dst) in purged_at or (t, src) in purged_at and not spec.get("source_purge_after_accept"):
                continue
            if (t, dst) not in held_before and not announcements.get((t, dst)):
                n += 1
        for (i, t, src) in fetches:
            if i not in fetched:
                n += 1
        return n
    def still_owed():
        """True while a data server has not yet taken one of the pending commands off its socket, or still lists it as awaiting
        confirmation / in progress (it will retransmit): then silence means a starved machine, not a lost transfer."""
        want = {}
        for (i, t, src, dst) in transfers:
            if (t, dst) not in held_before and not announcements.get((t, dst)) and (t, dst) not in purged_at and not ((t, src) in purged_at and not spec.get("source_purge_after_accept")):
                want.setdefault(src, set()).add(i)
        for (i, t, src) in fetches:
            if i not in fetched:
                want.setdefault(src, set()).add(i)
        for src, idxs in want.items():
            try:
                got = {int(ln.split()[2]) for ln in open(os.path.join(spec["tmp"], f"events-{src}.log")) if " recv-DatasetTransmitCommand " in ln}
            except (OSError, ValueError, IndexError):
                got = set()
            if idxs - got:
                return True          # command still in the socket queue of a data server that has not been scheduled
            try:
                st = json.load(open(os.path.join(spec["tmp"], f"state-{src}.json")))
            except (OSError, ValueError):
                return True
            if st["futs"] or (idxs & set(st["awaiting"])):
                return True
        # nobody owes a retransmission; but a payload that has been acknowledged (the Listener acks while it reads) may still be
        # waiting to be stored: every data server must have found its socket empty in two consecutive polls with no job running
        for h in hosts:
            try:
                st = json.load(open(os.path.join(spec["tmp"], f"state-{h['id']}.json")))
                n_ev = sum(1 for _ in open(os.path.join(spec["tmp"], f"events-{h['id']}.log")))
            except (OSError, ValueError):
                return True
            if st["futs"] or st.get("idle_polls", 0) < 2 or st.get("ev_n", -1) < n_ev:
                return True          # busy, or the published state is older than the trace
        # a payload that left its source (send_data returned) and has not shown up in the target's trace is still in transit
        # (zmq I/O threads of a starved machine): the transfer cannot be called lost yet
        for (i, t, src, dst) in transfers:
            if (t, dst) in held_before or announcements.get((t, dst)) or (t, dst) in purged_at:
                continue
            try:
                sent_i = any(ln.split()[:2] == ["payload-sent", str(i)] for ln in open(os.path.join(spec["tmp"], f"faults-{src}.log")))
                seen_i = any(f" recv-payload {t} idx={i}" in ln for ln in open(os.path.join(spec["tmp"], f"events-{dst}.log")))
            except OSError:
                return True
            if sent_i and not seen_i:
                return True
        return False
    t_start = time.time()
    last_size, last_change = log_sizes(), time.time()
    still_active = False
    while True:
        pump(0.05)
        sz = log_sizes()
        if sz != last_size:
            last_size, last_change = sz, time.time()
        if not pending() and purges_done():
            break
        if time.time() - last_change >= QUIET_S and not still_owed():
            break          # silent for many confirmation graces and no data server still owes a transfer: what is missing will not come
        if time.time() - t_start > CAP_S:
            still_active = True
            break
    if still_active:
        res["outcome"] = "inconclusive"
        res["error"] = f"data servers still busy after {CAP_S:.0f} s (machine overloaded?): no verdict for this scenario"
        return res
    pump(0.5)   # let late duplicates show up
    # ---- oracle ---------------------------------------------------------------------------------------------
    V = res["violations"]
    for hid, p in procs.items():
        if not p.is_alive():
            V.append(["data-server-process-died", f"host {hid} exited with {p.exitcode}"])
    # (the reason is appended below once the fault logs have been read)
    for f in failures:
        V.append(["transmit-failure-reported", f"{f}"])
    targets = {}
    for (i, t, src, dst) in transfers:
        targets.setdefault((t, dst), []).append(i)
    for (t, dst), idxs in targets.items():
        ds, data, df = datasets[t]
        got = read(dst, ds)
        anns = announcements.get((t, dst), [])
        if (t, dst) in purged_at:
            if got is not None:
                V.append(["dataset-resurrected-after-purge", f"{t} present at {dst} although it was purged there (transfers {idxs})"])
            if len(anns) > 1:
                V.append(["announced-more-than-once", f"{t} at {dst}: announcements {anns}"])
            continue
        if got is None:
            V.append(["transfer-never-stored", f"{t} missing at {dst} after transfers {idxs} (announcements {anns})"])
            continue
        if got[0] != data or got[1] != df:
            V.append(["stored-bytes-or-decoder-differ", f"{t} at {dst}: {len(got[0])} bytes, deser_fun {got[1]!r} vs source {len(data)} bytes, {df!r}"])
        want = 0 if (t, dst) in held_before else 1
        # the announcement is observed at the data server's own boundary (its call of callback(maddress, DatasetPublished)) and
        # cross-checked with what reached the harness: the notice travels over a one-shot socket with a 1 s linger, which a
        # starved machine can lose -- that is the observation channel failing, not the data server forgetting to announce
        try:
            called = sum(1 for ln in open(os.path.join(spec["tmp"], f"events-{dst}.log")) if f" announce-called {t} " in ln)
        except OSError:
            called = len(anns)
        if max(called, len(anns)) > want:
            V.append(["announced-more-than-once", f"{t} at {dst}: announced {called}x by the data server, {len(anns)} notices received {anns}, expected {want} (held before: {(t, dst) in held_before})"])
        elif called < want:
            V.append(["arrival-never-announced", f"{t} at {dst}: stored, but the data server never announced it (held before: {(t, dst) in held_before})"])
        elif len(anns) < called:
            res["notes"].append("announcement-made-but-lost-on-its-way-to-the-harness")
    for (i, t, src) in fetches:
        ds, data, df = datasets[t]
        got = fetched.get(i, [])
        if len(got) != 1:
            V.append(["fetch-delivered-not-exactly-once", f"fetch #{i} of {t} from {src}: {len(got)} payloads reached the controller"])
        elif got[0][1] != data or got[0][2] != df:
            V.append(["fetched-bytes-differ", f"fetch #{i} of {t}: {len(got[0][1])} bytes vs {len(data)}"])
    # sources keep their data unless purged
    for d in spec["datasets"]:
        ds, data, df = datasets[d["task"]]
        for hid in d["preload"]:
            if (d["task"], hid) in purged_at:
                continue
            got = read(hid, ds)
            if got is None or got[0] != data:
                V.append(["source-copy-damaged", f"{d['task']} at {hid}"])
    stats = {"transfers": len(transfers), "fetches": len(fetches), "purges": len(purged_at), "announcements": sum(len(v) for v in announcements.values()),
             "payloads_fetched": sum(len(v) for v in fetched.values())}
    exits = []
    for h in hosts:
        try:
            for ln in open(os.path.join(spec["tmp"], f"faults-{h['id']}.log")):
                k = ln.split()[0]
                stats[k] = stats.get(k, 0) + 1
                if k == "data-server-exit":
                    exits.append(f"{h['id']}: {ln.strip()[:300]}")
        except OSError:
            pass
    res["data_server_exits"] = exits
    if V:
        # witness material: thread stacks of every data server process and whether its shm server is still there
        import signal
        import psutil
        res["stacks"], res["children_alive"] = {}, {}
        for hid, p in procs.items():
            try:
                res["children_alive"][hid] = [(c.pid, c.status()) for c in psutil.Process(p.pid).children()]
                os.kill(p.pid, signal.SIGUSR1)
            except Exception:  # noqa: BLE001
                pass
        time.sleep(0.4)
        for h in hosts:
            try:
                res["stacks"][h["id"]] = open(os.path.join(spec["tmp"], f"stacks-{h['id']}.txt")).read()[-6000:]
            except OSError:
                pass
        res["events"] = {}
        for h in hosts:
            try:
                res["events"][h["id"]] = [ln.strip() for ln in open(os.path.join(spec["tmp"], f"events-{h['id']}.log")).readlines()[-80:]]
            except OSError:
                pass
    res["stats"] = stats
    res["outcome"] = "ok"
    return res


def main():
    spec = json.load(open(sys.argv[1]))
    try:
        res = run_scenario(spec)
    except Exception:  # noqa: BLE001
        res = {"outcome": "harness-error", "error": traceback.format_exc()[-1500:]}
    sys.stdout.write("RESULT " + json.dumps(res) + "\n")
    sys.stdout.flush()
    import psutil
    try:
        for p in psutil.Process(os.getpid()).children(recursive=True):
            try:
                p.kill()
            except Exception:  # noqa: BLE001
                pass
    finally:
        for h in spec["hosts"]:
            for s in glob.glob(f"/dev/shm/sCasc{h['id']}*"):
                try:
                    os.unlink(s)
                except OSError:
                    pass
        import shutil
        shutil.rmtree(spec["tmp"], ignore_errors=True)
    os._exit(0)


if __name__ == "__main__":
    main()
