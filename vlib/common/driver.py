"""vcheck driver: plans shards, runs them in subprocesses, merges, writes evidence, prints verdict lines.

Exit codes: 0 held on everything explored (possibly with KNOWN-FINDING lines);
            1 with `VIOLATION property=<id> replay=<path>` for each unlisted violation;
            2 with `INCONCLUSIVE property=<id> reason=...` when a deciding monitor observed
              nothing, a shard died/timed out, or only a watchdog fired.
"""

from __future__ import annotations

import argparse
import importlib
import json
import os
import subprocess
import sys
import tempfile
import time
from concurrent.futures import ThreadPoolExecutor

from vlib.common.core import REPO_DIR, VERIF_DIR, digest, dump_json

PY = "/venv/bin/python"
DEPS = os.path.join(VERIF_DIR, ".deps")


def ensure_deps() -> None:
    """icontract lives in /verif/.deps (git-ignored); install from the offline wheelhouse when absent."""
    if os.path.isdir(os.path.join(DEPS, "icontract")):
        return
    os.makedirs(DEPS, exist_ok=True)
    subprocess.run(
        [PY, "-m", "pip", "install", "-q", "--no-index", "--find-links", "/opt/veriftools/wheels",
         "--target", DEPS, "icontract"],
        check=False, stdout=subprocess.DEVNULL, stderr=subprocess.DEVNULL, timeout=300,
    )


def child_env(hash_seed: int | None = None) -> dict:
    env = dict(os.environ)
    env["PYTHONPATH"] = f"{REPO_DIR}/src:{VERIF_DIR}:{DEPS}"
    env["VERIF_REPO"] = REPO_DIR
    env["PYTHONDONTWRITEBYTECODE"] = "1"
    env["EARTHKIT_WORKFLOWS_VERIF"] = "1"
    env.setdefault("OMP_NUM_THREADS", "1")
    env.setdefault("OPENBLAS_NUM_THREADS", "1")
    if hash_seed is not None:
        env["PYTHONHASHSEED"] = str(hash_seed)
    return env


def run_one_shard(pid: str, spec: dict, workdir: str, i: int) -> dict:
    spec_path = os.path.join(workdir, f"spec{i}.json")
    out_path = os.path.join(workdir, f"out{i}.json")
    err_path = os.path.join(workdir, f"err{i}.txt")
    with open(spec_path, "w") as f:
        json.dump(spec, f)
    timeout = float(spec.get("timeout_s", 600))
    t0 = time.time()
    try:
        with open(err_path, "w") as ef:
            # everything a shard (and the processes of the system under test it starts) puts into its temp directory -- spill
            # directories of shm servers that get killed, scenario specs -- lives under the run's work directory and goes with it
            tmpdir = os.path.join(workdir, f"tmp{i}")
            os.makedirs(tmpdir, exist_ok=True)
            env = child_env(spec.get("hash_seed"))
            env["TMPDIR"] = tmpdir
            p = subprocess.Popen(
                [PY, "-m", "vlib.common.shard", pid, spec_path, out_path],
                env=env, cwd=VERIF_DIR,
                stdout=ef, stderr=ef, start_new_session=True,
            )
            try:
                rc = p.wait(timeout=timeout)
            except subprocess.TimeoutExpired:
                import signal
                try:
                    os.killpg(p.pid, signal.SIGKILL)
                except ProcessLookupError:
                    pass
                p.wait()
                return {"spec": spec, "dead": f"shard watchdog ({timeout}s) fired", "wall_s": time.time() - t0}
    except Exception as e:  # noqa: BLE001
        return {"spec": spec, "dead": f"could not start shard: {e!r}"}
    if rc != 0 or not os.path.exists(out_path):
        tail = ""
        try:
            tail = open(err_path).read()[-1500:]
        except OSError:
            pass
        return {"spec": spec, "dead": f"shard exit code {rc}: {tail}"}
    with open(out_path) as f:
        return json.load(f)


def load_known() -> dict:
    p = os.path.join(VERIF_DIR, "known_findings.json")
    if not os.path.exists(p):
        return {"known": [], "fixed": []}
    with open(p) as f:
        return json.load(f)


def main(argv=None) -> int:
    ap = argparse.ArgumentParser(prog="vcheck")
    ap.add_argument("pid")
    ap.add_argument("--tier", default=os.environ.get("VERIF_TIER", "quick"), choices=["quick", "thorough"])
    ap.add_argument("--replay", default=None)
    ap.add_argument("--jobs", type=int, default=int(os.environ.get("VERIF_JOBS", "16")))
    ap.add_argument("--scale", type=float, default=float(os.environ.get("VERIF_SCALE", "1")))
    args = ap.parse_args(argv)
    pid = args.pid.upper()
    seed = int(os.environ.get("VERIF_SEED", "0") or 0)
    ensure_deps()
    sys.path.insert(0, DEPS)
    sys.path.insert(0, os.path.join(REPO_DIR, "src"))
    mod = importlib.import_module(f"vlib.checks.{pid.lower()}")
    t0 = time.time()

    if args.replay:
        with open(args.replay) as f:
            rep = json.load(f)
        spec = dict(rep["replay"]["spec"])
        spec["only"] = rep["replay"]["only"]
        spec["timeout_s"] = 900
        spec["budget_s"] = 800
        specs = [spec]
        tier = spec.get("tier", args.tier)
    else:
        tier = args.tier
        specs = mod.plan(tier, seed, args.scale) if mod.plan.__code__.co_argcount >= 3 else mod.plan(tier, seed)
        for s in specs:
            s.setdefault("tier", tier)
            s.setdefault("seed", seed)

    workdir = tempfile.mkdtemp(prefix=f"vcheck-{pid}-")
    try:
        # shards that start real processes (clusters, data servers, shm servers) run in a later phase, a few at a time, on an
        # otherwise idle machine: starving them next to 16 CPU-bound shards makes the real code lose local fire-and-forget
        # messages (1 s zmq linger) and exhaust its 16 s retry budget -- failures the harness itself would have manufactured
        results = [None] * len(specs)
        phases = sorted({s.get("phase", 0) for s in specs})
        ncpu = os.cpu_count() or 4
        for ph in phases:
            idx = [i for i, s in enumerate(specs) if s.get("phase", 0) == ph]
            workers = max(1, args.jobs) if ph == 0 else max(1, min(args.jobs, 8, ncpu // 2))
            with ThreadPoolExecutor(max_workers=workers) as ex:
                for i, r in zip(idx, ex.map(lambda i: run_one_shard(pid, specs[i], workdir, i), idx)):
                    results[i] = r
    finally:
        import shutil
        shutil.rmtree(workdir, ignore_errors=True)

    # ---- merge ------------------------------------------------------------------
    evaluations = 0
    shapes: set[str] = set()
    states: set[str] = set()
    counters: dict[str, int] = {}
    observations: dict[str, int] = {}
    violations: dict[str, list[dict]] = {}
    violation_count = 0
    samples: list = []
    inconclusive: list[str] = []
    for r in results:
        if "dead" in r:
            inconclusive.append(f"shard {r['spec'].get('shard')}: {r['dead']}"[:600])
            continue
        evaluations += r["evaluations"]
        shapes.update(r["shapes"])
        states.update(r["states"])
        for k, v in r["counters"].items():
            counters[k] = counters.get(k, 0) + v
        for k, v in r["observations"].items():
            observations[k] = observations.get(k, 0) + v
        for mech, lst in r["violations"].items():
            violations.setdefault(mech, []).extend(lst)
        violation_count += r["violation_count"]
        for s in r["samples"]:
            if len(samples) < 5:
                samples.append(s)
        inconclusive.extend(x[:600] for x in r["inconclusive"])

    if not args.replay:
        for name in getattr(mod, "REQUIRED_COUNTERS", []):
            if counters.get(name, 0) == 0:
                inconclusive.append(f"deciding monitor counter '{name}' is 0: nothing observed")
        fin = getattr(mod, "finalize", None)
        if fin is not None:
            fin(tier, counters, inconclusive)

    known = load_known()
    known_mechs = {e["mechanism"]: e for e in known.get("known", []) if e["property"] == pid}
    lines: list[str] = []
    unlisted = 0
    out_root = os.environ.get("VERIF_OUT_DIR", VERIF_DIR)   # the mutation self-test redirects evidence and replays
    rep_dir = os.path.join(out_root, "replays", pid)
    for mech, lst in sorted(violations.items()):
        if mech in known_mechs:
            lines.append(f"KNOWN-FINDING: property={pid} {mech}: {known_mechs[mech]['what']} (seen {len(lst)}+ times)")
            continue
        for w in lst[:2]:
            unlisted += 1
            path = os.path.join(rep_dir, f"{digest(mech, w['replay'])}.json")
            dump_json(path, w)
            lines.append(f"VIOLATION property={pid} replay={path}")
            lines.append(f"  mechanism={mech} :: {w['message'][:300]}")

    verdict = "violated" if unlisted else ("inconclusive" if inconclusive else "held")
    coverage = {
        "evaluations": evaluations,
        "distinct_nontrivial": len(shapes),
        "rule": mod.RULE,
        "samples": samples,
        "abstract_states": len(states),
        "counters": counters,
        "observations": observations,
        "shards": len(specs),
        "verdict": verdict,
        "inconclusive_reasons": inconclusive[:10],
        "known_findings_seen": sorted(m for m in violations if m in known_mechs),
        "violating_mechanisms": sorted(m for m in violations if m not in known_mechs),
    }
    extra = getattr(mod, "coverage_extra", None)
    if extra is not None:
        coverage.update(extra(tier, counters))
    evidence = {
        "property_id": pid,
        "tier": tier,
        "seed": seed,
        "level": mod.LEVEL,
        "coverage": coverage,
        "assumptions": list(getattr(mod, "ASSUMPTIONS", [])),
        "wall_s": round(time.time() - t0, 2),
        "violations": violation_count,
    }
    if not args.replay:
        dump_json(os.path.join(out_root, "evidence", f"{pid}.json"), evidence)

    for ln in lines:
        print(ln)
    top = ", ".join(f"{k}={v}" for k, v in sorted(counters.items())[:14])
    print(f"[{pid}] tier={tier} seed={seed} verdict={verdict} evaluations={evaluations} "
          f"distinct_nontrivial={len(shapes)} states={len(states)} wall={evidence['wall_s']}s :: {top}")
    if unlisted:
        return 1
    if inconclusive:
        for r in inconclusive[:5]:
            print(f"INCONCLUSIVE property={pid} reason={r[:400]}")
        return 2
    return 0


if __name__ == "__main__":
    sys.exit(main())
