#!/venv/bin/python
"""Validates an independently written property-breaking change and runs the property's check against it.

usage: tools/evalseed.py <Cxx> <dir with CHANGE.diff, demo.py, NOTES.md> [--tier quick|thorough] [--keep]

Steps (everything in a fresh scratch worktree of /repo under $TMPDIR, removed at the end):
  1. the patch applies to /repo HEAD;
  2. the repository's own suite (tests/earthkit_workflows, the pinned 133) still passes with it;
  3. the demonstration passes without the change and fails with it;
  4. ./vcheck <Cxx> with VERIF_REPO=<worktree> must print VIOLATION for that property (quick, then thorough if silent).
With --keep the change is copied to /verif/seeded/<id>/ (patch.diff, demo.py, NOTES.md, meta.json).
"""

from __future__ import annotations

import argparse
import json
import os
import re
import shutil
import subprocess
import sys
import tempfile
import time

VERIF = os.path.dirname(os.path.dirname(os.path.abspath(__file__)))
REPO = "/repo"
PY = "/venv/bin/python"


def sh(cmd, **kw):
    return subprocess.run(cmd, capture_output=True, text=True, **kw)


def main():
    ap = argparse.ArgumentParser()
    ap.add_argument("prop")
    ap.add_argument("dir")
    ap.add_argument("--tier", default="quick")
    ap.add_argument("--keep", action="store_true")
    ap.add_argument("--name", default=None)
    ap.add_argument("--quick-only", action="store_true")
    a = ap.parse_args()
    prop = a.prop.upper()
    src = os.path.abspath(a.dir)
    patch = os.path.join(src, "CHANGE.diff") if os.path.exists(os.path.join(src, "CHANGE.diff")) else os.path.join(src, "patch.diff")
    demo = os.path.join(src, "demo.py")
    wt = tempfile.mkdtemp(prefix=f"ekw-seed-{prop}-")
    os.rmdir(wt)
    out_dir = wt + "-out"
    report = {"property": prop, "source": src}
    try:
        sh(["git", "-C", REPO, "worktree", "add", "--detach", "-q", wt, "HEAD"], check=True)
        shutil.copy(demo, os.path.join(wt, "demo.py"))
        env = dict(os.environ, PYTHONPATH=f"{wt}/src", PYTHONDONTWRITEBYTECODE="1")
        d0 = sh([PY, "demo.py"], cwd=wt, env=env, timeout=600)
        report["demo_without_change"] = d0.returncode
        ap_ = sh(["git", "-C", wt, "apply", "--whitespace=nowarn", patch])
        report["patch_applies"] = ap_.returncode == 0
        if ap_.returncode != 0:
            report["patch_error"] = ap_.stderr[-400:]
            print(json.dumps(report, indent=1))
            return 2
        report["files_changed"] = sh(["git", "-C", wt, "diff", "--stat"]).stdout.strip().splitlines()[-1:]
        b = sh([PY, "-m", "pytest", "tests/earthkit_workflows", "-q", "-p", "no:cacheprovider", "--timeout=900", "--continue-on-collection-errors"], cwd=wt, env=env, timeout=900)
        summ = [ln for ln in b.stdout.splitlines() if re.match(r"^=+ .* in [\d.]+s", ln)]
        report["baseline_with_change"] = summ[-1].strip("= ") if summ else b.stdout[-200:]
        d1 = sh([PY, "demo.py"], cwd=wt, env=env, timeout=600)
        report["demo_with_change"] = d1.returncode
        report["demo_output_with_change"] = (d1.stdout + d1.stderr)[-600:]
        valid = report["demo_without_change"] == 0 and report["demo_with_change"] != 0 and "133 passed" in report["baseline_with_change"] and "failed" not in report["baseline_with_change"]
        report["valid_seed"] = valid
        tiers = [a.tier] if a.tier == "thorough" else (["quick"] if a.quick_only else ["quick", "thorough"])
        caught = None
        for tier in tiers:
            t0 = time.time()
            c = sh([os.path.join(VERIF, "vcheck"), prop, "--tier", tier], cwd=VERIF, env=dict(os.environ, VERIF_REPO=wt, VERIF_OUT_DIR=out_dir), timeout=7200)
            mechs = sorted(set(re.findall(r"mechanism=(\S+)", c.stdout)))
            report[f"check_{tier}"] = {"exit": c.returncode, "mechanisms": mechs[:6], "seconds": round(time.time() - t0, 1),
                                       "summary": [ln for ln in c.stdout.splitlines() if ln.startswith("[")][-1:][0][:300] if c.stdout else ""}
            if c.returncode == 1 and f"VIOLATION property={prop}" in c.stdout:
                caught = tier
                break
        report["caught_by"] = caught
        print(json.dumps(report, indent=1))
        if a.keep:
            name = a.name or f"{prop}-{os.path.basename(src.rstrip('/'))}"
            dst = os.path.join(VERIF, "seeded", name)
            os.makedirs(dst, exist_ok=True)
            shutil.copy(patch, os.path.join(dst, "patch.diff"))
            shutil.copy(demo, os.path.join(dst, "demo.py"))
            if os.path.exists(os.path.join(src, "NOTES.md")):
                shutil.copy(os.path.join(src, "NOTES.md"), os.path.join(dst, "NOTES.md"))
            meta = {"property": prop, "needs_to_manifest": "see NOTES.md", "validated": {k: report.get(k) for k in ("patch_applies", "baseline_with_change", "demo_without_change", "demo_with_change", "valid_seed")},
                    "ran": [f"./vcheck {prop} --tier {t} (VERIF_REPO=<scratch worktree with the patch>)" for t in tiers if f"check_{t}" in report],
                    "result": {t: report.get(f"check_{t}") for t in tiers if f"check_{t}" in report}, "caught_by": caught}
            with open(os.path.join(dst, "meta.json"), "w") as f:
                json.dump(meta, f, indent=1)
        return 0 if caught else 1
    finally:
        sh(["git", "-C", REPO, "worktree", "remove", "--force", wt])
        shutil.rmtree(wt, ignore_errors=True)
        shutil.rmtree(out_dir, ignore_errors=True)
        sh(["git", "-C", REPO, "worktree", "prune"])


if __name__ == "__main__":
    sys.exit(main())
