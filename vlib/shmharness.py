"""E4 -- ShmHarness: the real cascade.shm.dataset.Manager with real SharedMemory segments, a controllable Disk
(the harness decides when each page-out / page-in job runs and whether it fails), a virtual clock, and the monitors
of C08 (capacity / accounting / admission) and C09 (content / protection / reachability).

Every violation is tagged with the property it belongs to; a check reports only its own.
"""

from __future__ import annotations

import multiprocessing.resource_tracker
import os
import threading
from multiprocessing.shared_memory import SharedMemory

from vlib.common.core import Collector, digest

RESIDENT = ("created", "in_memory", "paging_out", "paged_in")


class VClock:
    def __init__(self):
        self.now = 1_000_000_000

    def time_ns(self):
        self.now += 1
        return self.now

    def time(self):
        return self.now / 1e9


class ControlledDisk:
    """Same interface as shm.disk.Disk; jobs are queued and executed by the harness through the *real* worker bodies."""

    def __init__(self, real_disk_cls):
        import tempfile
        self.root = tempfile.TemporaryDirectory(ignore_cleanup_errors=True)
        self.real = real_disk_cls
        self.jobs: list[dict] = []
        self.submitted = 0

    def page_out(self, shmid, callback):
        self.submitted += 1
        self.jobs.append({"kind": "out", "shmid": shmid, "callback": callback})
        if self.on_submit:
            self.on_submit(self.jobs[-1])

    def page_in(self, shmid, size, callback):
        self.submitted += 1
        self.jobs.append({"kind": "in", "shmid": shmid, "size": size, "callback": callback})
        if self.on_submit:
            self.on_submit(self.jobs[-1])

    on_submit = None

    def run(self, job):
        if job["kind"] == "out":
            self.real._page_out(self, job["shmid"], job["callback"])
        else:
            self.real._page_in(self, job["shmid"], job["size"], job["callback"])

    def atexit(self):
        self.root.cleanup()


def seg_path(shmid):
    return f"/dev/shm/{shmid}"


def unregister(shm):
    try:
        multiprocessing.resource_tracker.unregister(shm._name, "shared_memory")
    except Exception:  # noqa: BLE001
        pass


class History:
    """One history of operations against one Manager."""

    def __init__(self, col: Collector, rng, index: int, prop: str, prefix: str, max_ops: int):
        import cascade.shm.dataset as dataset
        import cascade.shm.disk as disk
        self.col, self.rng, self.index, self.prop = col, rng, index, prop
        self.dataset = dataset
        self.disk_mod = disk
        self.clock = VClock()
        self.real_time = dataset.time
        dataset.time = self.clock
        self.capacity = rng.choice([4, 8, 16, 32, 64, 128, 256])
        self.prefix = prefix
        # configuration class: the host offers less than the configured capacity (a container with a small /dev/shm): the store
        # trims itself to what is available, and that is the capacity every clause speaks about
        configured = self.capacity
        real_get_capacity = dataset.get_capacity
        if rng.random() < 0.12:
            avail = rng.choice([configured // 2, max(1, configured - 1), max(1, configured // 4)]) or 1
            dataset.get_capacity = lambda: avail
            self.capacity = min(configured, avail)
            col.count("histories_with_capacity_trimmed_to_available")
        try:
            self.m = dataset.Manager(prefix, configured)
        finally:
            dataset.get_capacity = real_get_capacity
        self.m.disk.atexit()
        self.m.disk = ControlledDisk(disk.Disk)
        self.m.disk.on_submit = self.on_job_submitted
        self.max_ops = max_ops
        self.trace: list = []
        self.in_callback = False
        self.failed = False
        # harness-side tables (ground truth of what clients did)
        self.keys = [f"k{i}" for i in range(rng.randint(1, 8))]
        self.gen = {k: 0 for k in self.keys}
        self.content: dict[str, bytes | None] = {}       # key -> bytes written (None: unknown / forfeited)
        self.writers: dict[str, dict] = {}               # key -> {shmid, size, t0, created_segment}
        self.readers: dict[str, dict[str, dict]] = {}    # key -> rdid -> {t0, shmid}
        self.purge_requested: set[str] = set()
        self.pending_purge_after_read: set[str] = set()
        self.zombies: set[str] = set()   # keys with a stale (forfeited) reader whose close the store refused
        self.disk_failures_seen = False
        self.n_ops = 0

    # ------------------------------------------------------------------------------------------
    def viol(self, prop, mech, msg):
        if self.failed:
            return  # only the first violation of a history is reported; later ones are consequences
        if prop == self.prop:
            self.col.violation(mech, msg, {"capacity": self.capacity, "trace": self.trace[-60:]}, self.index)
        self.failed = True

    def log(self, *a):
        self.trace.append(list(a))

    def status_of(self, key):
        ds = self.m.datasets.get(key)
        return ds.status.name if ds else None

    def key_of_shmid(self, shmid):
        for k, ds in self.m.datasets.items():
            if ds.shmid == shmid:
                return k
        return None

    MARGIN = 10**7  # ns; the virtual clock also ticks +1 per reading, so "fresh" is only claimed well inside the window

    def fresh_readers(self, key) -> bool:
        rs = self.readers.get(key, {})
        if not rs:
            return False
        newest = max(r["t0"] for r in rs.values())
        return self.clock.now - newest <= self.dataset.STALE_READ - self.MARGIN

    def writer_fresh(self, key) -> bool:
        w = self.writers.get(key)
        return bool(w) and self.clock.now - w["t0"] <= self.dataset.STALE_CREATE - self.MARGIN

    # ------------------------------------------------------------------------------------------
    # monitors
    def on_job_submitted(self, job):
        key = self.key_of_shmid(job["shmid"])
        job["key"] = key
        job["ds_obj"] = self.m.datasets.get(key) if key is not None else None
        self.log("job-submitted", job["kind"], key)
        if job["kind"] == "out" and key is not None:
            self.col.count("pageouts_submitted")
            if self.fresh_readers(key):
                self.viol("C09", "pageout-of-dataset-with-fresh-reader", f"page-out submitted for {key} while a reader younger than the staleness window holds it")
            if key in self.writers and self.writer_fresh(key):
                self.viol("C09", "pageout-of-dataset-being-written", f"page-out submitted for {key} whose writer has not finished")

    def resident_sum(self):
        return sum(ds.size for ds in self.m.datasets.values() if ds.status.name in RESIDENT)

    def real_bytes(self):
        tot = 0
        try:
            for e in os.scandir("/dev/shm"):
                if e.name.startswith(self.prefix):
                    try:
                        tot += e.stat().st_size
                    except OSError:
                        pass
        except OSError:
            pass
        return tot

    def check_accounting(self, quiescent: bool, where: str):
        m = self.m
        self.col.count("accounting_checks")
        rs = self.resident_sum()
        if rs > m.capacity:
            self.viol("C08", "resident-exceeds-capacity", f"{where}: resident datasets total {rs} > capacity {m.capacity}")
        if not (0 <= m.free_space <= m.capacity):
            self.viol("C08", "free-space-out-of-range", f"{where}: free_space {m.free_space} not in [0, {m.capacity}]")
        rb = self.real_bytes()
        if rb > m.capacity:
            self.viol("C08", "segments-exceed-capacity", f"{where}: /dev/shm segments of this store total {rb} bytes > capacity {m.capacity}")
        if quiescent and not self.in_callback:
            self.col.count("accounting_equalities")
            if m.free_space != m.capacity - rs:
                self.viol("C08", "free-space-differs-from-capacity-minus-resident",
                          f"{where}: free_space {m.free_space} != capacity {m.capacity} - resident {rs}")
        # abstract state for evidence
        st = sorted((ds.status.name, self.fresh_readers(k), ds.delayed_purge) for k, ds in m.datasets.items())
        self.col.state(digest(st, m.free_space * 4 // max(1, m.capacity), m.pageout_all.locked()))

    def check_status_truth(self):
        """At quiescence: statuses agree with what really exists."""
        for k, ds in self.m.datasets.items():
            exists = os.path.exists(seg_path(ds.shmid))
            if ds.status.name == "in_memory" and not exists:
                self.viol("C09", "in-memory-dataset-without-segment", f"{k} is in_memory but its segment does not exist")
            if ds.status.name == "on_disk":
                if exists and k not in self.writers:
                    self.viol("C08", "on-disk-dataset-still-holds-segment", f"{k} is on_disk but its segment still exists")
                if not os.path.exists(f"{self.m.disk.root.name}/{ds.shmid}"):
                    self.viol("C09", "on-disk-dataset-without-file", f"{k} is on_disk but no file holds it")

    # ------------------------------------------------------------------------------------------
    # operations (each mirrors what shm/client.py + shm/server.py do)
    def op_allocate(self, key=None, size=None):
        m = self.m
        key = key or self.rng.choice(self.keys)
        size = size or self.rng.choice([1, 1, 2, 3, 5, 8, 13, 21, 34, 64, self.capacity, self.capacity + 1, max(1, self.capacity // 2)])
        free_before = m.free_space
        known = key in m.datasets
        shmid, err = m.add(key, size, f"df-{key}")
        self.log("allocate", key, size, err or "granted", free_before, m.free_space)
        self.col.count("allocate_requests")
        if known:
            if err != "conflict":
                self.viol("C08", "allocate-existing-key-not-conflict", f"add({key}) on an existing key answered {err!r}")
            return None
        if size > m.capacity:
            if err != "capacity exceeded":
                self.viol("C08", "oversized-request-not-refused", f"add(size={size}) with capacity {m.capacity} answered {err!r}")
            return None
        if size > free_before:
            self.col.count("allocate_wait")
            if err != "wait":
                self.viol("C08", "granted-beyond-free-space", f"add(size={size}) with free_space {free_before} answered {err!r} instead of wait")
            elif m.free_space != free_before:
                self.viol("C08", "wait-reserved-space", f"'wait' changed free_space {free_before} -> {m.free_space}")
            return None
        if err:
            self.viol("C08", "fitting-request-not-granted", f"add(size={size}) with free_space {free_before} answered {err!r}")
            return None
        self.col.count("allocate_granted")
        if m.free_space != free_before - size:
            self.viol("C08", "grant-reserved-wrong-amount", f"granted {size}: free_space {free_before} -> {m.free_space}")
        # client side: create the segment and write unique content
        self.gen[key] = self.gen.get(key, 0) + 1
        data = bytes((hash((key, self.gen[key], i)) & 0xFF) for i in range(size))
        w = {"shmid": shmid, "size": size, "t0": self.clock.now, "data": data, "shm": None}
        try:
            shm = SharedMemory(shmid, create=True, size=size)
            shm.buf[:size] = data
            w["shm"] = shm
        except FileExistsError:
            self.viol("C09", "segment-name-reused-while-alive", f"segment {shmid} for new key {key} already exists")
            return None
        self.forget(key)  # a new incarnation of the key: nothing recorded about earlier ones applies
        self.writers[key] = w
        self.content[key] = None
        return key

    def op_finish_write(self, key=None):
        cands = [k for k in self.writers]
        if not cands:
            return
        key = key or self.rng.choice(cands)
        w = self.writers.pop(key)
        fresh = self.clock.now - w["t0"] <= self.dataset.STALE_CREATE - self.MARGIN
        if w["shm"] is not None:
            w["shm"].close()
            unregister(w["shm"])
        st = self.status_of(key)
        try:
            self.m.close_callback(key, "")
            self.log("finish-write", key, "ok")
            self.content[key] = w["data"]
        except (ValueError, KeyError) as e:
            self.log("finish-write", key, repr(e)[:60])
            if fresh and key not in self.purge_requested:
                self.viol("C09", "fresh-writer-close-refused", f"close of a fresh writer of {key} (status {st}) refused: {e!r}")
            self.content[key] = None
        self.col.count("writes_finished")

    def op_get(self, key=None, probe=False):
        m = self.m
        cands = list(m.datasets) or self.keys
        key = key or self.rng.choice(cands + [self.rng.choice(self.keys)])
        st = self.status_of(key)
        free_before = m.free_space
        try:
            shmid, l, rdid, deser_fun, err = m.get(key)
        except KeyError:
            self.log("get", key, "unknown")
            if st is not None:
                self.viol("C09", "known-key-reported-unknown", f"get({key}) raised KeyError although status was {st}")
            return "unknown"
        except ValueError as e:
            self.log("get", key, repr(e)[:60])
            return "error"
        self.log("get", key, err or "granted", st)
        self.col.count("get_requests")
        if err:
            if st == "on_disk" and self.status_of(key) == "paged_in":
                self.col.count("pagein_reservations")
                if m.free_space != free_before - m.datasets[key].size:
                    self.viol("C08", "pagein-did-not-reserve", f"page-in of {key}: free_space {free_before} -> {m.free_space}, size {m.datasets[key].size}")
            return err
        self.col.count("get_granted")
        if key in self.writers and self.writer_fresh(key):
            self.viol("C09", "read-granted-before-writer-finished", f"get({key}) granted while its writer has not finished")
        if st != "in_memory":
            self.viol("C09", "read-granted-in-transitional-state", f"get({key}) granted in status {st}")
        exp = self.content.get(key)
        try:
            shm = SharedMemory(shmid, create=False)
        except FileNotFoundError:
            self.viol("C09", "granted-read-without-segment", f"get({key}) granted but segment {shmid} does not exist")
            return "granted"
        got = bytes(shm.buf[:l])
        if exp is not None:
            self.col.count("content_checks")
            if got != exp or deser_fun != f"df-{key}":
                self.viol("C09", "bytes-differ-from-written", f"get({key}): {got[:16].hex()}.. ({l} B) != written {exp[:16].hex()}.. ({len(exp)} B), deser_fun {deser_fun!r}")
        self.readers.setdefault(key, {})[rdid] = {"t0": self.clock.now, "shm": shm, "shmid": shmid, "l": l, "exp": exp}
        return "granted"

    def op_finish_read(self, key=None, rdid=None):
        cands = [(k, r) for k, rs in self.readers.items() for r in rs]
        if not cands:
            return
        if key is None:
            key, rdid = self.rng.choice(cands)
        r = self.readers[key].pop(rdid)
        if not self.readers[key]:
            del self.readers[key]
        fresh = self.clock.now - r["t0"] <= self.dataset.STALE_READ - self.MARGIN
        if fresh:
            self.col.count("fresh_reader_closes")
            if not os.path.exists(seg_path(r["shmid"])):
                self.viol("C09", "segment-unlinked-under-fresh-reader", f"segment of {key} vanished while reader {rdid} (fresh) held it")
            elif r["exp"] is not None and bytes(r["shm"].buf[: r["l"]]) != r["exp"]:
                self.viol("C09", "bytes-changed-under-reader", f"content of {key} changed while reader {rdid} held it")
        r["shm"].close()
        unregister(r["shm"])
        last = key not in self.readers
        had_purge = key in self.pending_purge_after_read
        free_before = self.m.free_space
        size = self.m.datasets[key].size if key in self.m.datasets else None
        try:
            self.m.close_callback(key, rdid)
            self.log("finish-read", key, rdid, "ok")
        except (ValueError, KeyError) as e:
            self.log("finish-read", key, rdid, repr(e)[:60])
            if fresh:
                self.viol("C09", "fresh-reader-close-refused", f"close of fresh reader {rdid} of {key} refused: {e!r}")
            elif key in self.m.datasets:
                # a forfeited (stale) reader: the store paged the dataset out under it and now keeps its entry for ever;
                # the statement protects only readers younger than the window, so nothing is demanded for this key any more
                self.zombies.add(key)
                self.col.observe("stale_reader_close_refused_entry_kept")
            return
        if had_purge and fresh and key not in self.zombies:
            if last:
                self.pending_purge_after_read.discard(key)
                self.col.count("delayed_purges_completed")
                if key in self.m.datasets:
                    self.viol("C09", "delayed-purge-never-takes-effect", f"purge of {key} requested during a read; last reader closed but the key is still present")
                elif size is not None and self.m.free_space != free_before + size:
                    self.viol("C08", "delayed-purge-space-not-returned", f"delayed purge of {key}: free_space {free_before} -> {self.m.free_space}, size {size}")
                else:
                    self.forget(key)
            elif key not in self.m.datasets:
                self.viol("C09", "delayed-purge-early", f"purge of {key} executed at a reader close although another reader still holds it")
        elif key not in self.m.datasets:
            self.forget(key)

    def forget(self, key):
        self.content.pop(key, None)
        self.purge_requested.discard(key)
        self.pending_purge_after_read.discard(key)
        self.zombies.discard(key)

    def op_purge(self, key=None):
        m = self.m
        cands = list(m.datasets)
        if not cands:
            return
        key = key or self.rng.choice(cands)
        st = self.status_of(key)
        ds = m.datasets[key]
        size, shmid = ds.size, ds.shmid
        free_before = m.free_space
        reading = key in self.readers
        fresh = self.fresh_readers(key)
        m.purge(key)
        self.log("purge", key, st, "reading" if reading else "", self.status_of(key))
        self.col.count("purges")
        self.purge_requested.add(key)
        if reading:
            if fresh:
                self.col.count("purges_during_fresh_read")
                if key not in m.datasets or not os.path.exists(seg_path(shmid)):
                    self.viol("C09", "purge-during-read-took-effect-early", f"purge of {key} while a fresh reader holds it removed the dataset immediately")
                elif m.free_space != free_before:
                    self.viol("C08", "purge-during-read-credited-space", f"purge of {key} delayed but free_space {free_before} -> {m.free_space}")
                else:
                    self.pending_purge_after_read.add(key)
            return
        if key not in m.datasets:
            if m.free_space != free_before + size:
                self.viol("C08", "purge-credited-wrong-amount", f"purge of {key} ({st}, size {size}): free_space {free_before} -> {m.free_space}")
            if key in self.writers:  # writer forfeits: its dataset is gone
                w = self.writers.pop(key)
                if w["shm"] is not None:
                    w["shm"].close()
                    unregister(w["shm"])
            self.forget(key)
        elif st == "in_memory" and key not in self.zombies:
            self.viol("C09", "purge-of-idle-dataset-ignored", f"purge of idle in-memory dataset {key} left it in place")

    def run_job(self, job, mode="ok"):
        d = self.m.disk
        if job in d.jobs:
            d.jobs.remove(job)
        key = job.get("key")
        stale_hit = self.is_stale_hit(job)
        self.in_callback = True
        try:
            if mode == "ok":
                if not self.run_guarded(lambda: d.run(job), f"{job['kind']} job of {key}"):
                    return
                self.col.count("pageouts_run" if job["kind"] == "out" else "pageins_run")
            elif mode == "fail-disk-write":
                # the disk write fails while the segment still exists (spill directory unwritable): the real worker body reports failure
                self.disk_failures_seen = True
                self.col.count("disk_failures_injected")
                real_root = d.root
                class _NoDir:  # noqa: N801
                    name = "/nonexistent-verif-dir"
                d.root = _NoDir()
                try:
                    if not self.run_guarded(lambda: d.run(job), f"failing {job['kind']} job of {key}"):
                        return
                finally:
                    d.root = real_root
            else:
                self.disk_failures_seen = True
                self.col.count("disk_failures_injected")
                if mode == "fail-clean":
                    if not self.run_guarded(lambda: job["callback"](False), f"failure callback of the {job['kind']} job of {key}"):
                        return
                elif mode == "fail-after-side-effect":
                    if job["kind"] == "out":
                        try:
                            shm = SharedMemory(job["shmid"], create=False)
                            with open(f"{d.root.name}/{job['shmid']}", "wb") as f:
                                f.write(shm.buf[:])
                            shm.close()
                            unregister(shm)
                        except Exception:  # noqa: BLE001
                            pass
                    else:
                        try:
                            shm = SharedMemory(job["shmid"], create=True, size=job["size"])
                            shm.close()
                            unregister(shm)
                        except Exception:  # noqa: BLE001
                            pass
                    if not self.run_guarded(lambda: job["callback"](False), f"failure callback of the {job['kind']} job of {key}"):
                        return
        finally:
            self.in_callback = False
        self.log("job-run", job["kind"], key, mode, self.status_of(key) if key else None)
        # a finished disk job -- successful or failed -- must leave its dataset in a settled state: a dataset that stays
        # 'paged_in' / 'paging_out' with no job left to move it on answers 'wait' for ever and its bytes are never given back
        if key is not None and not stale_hit and not any(j.get("key") == key for j in d.jobs):
            st_now = self.status_of(key)
            if st_now in ("paged_in", "paging_out"):
                self.viol("C09", f"dataset-stuck-in-{st_now}-after-{'failed' if mode != 'ok' else 'finished'}-{job['kind']}-job",
                          f"{key} is still {st_now} after its page-{job['kind']} job ended ({mode}) and no disk job is left for it: every get answers 'wait' for ever, its {job.get('size', '?')} bytes are never returned")
                self.viol("C08", f"dataset-stuck-in-{st_now}-after-{'failed' if mode != 'ok' else 'finished'}-{job['kind']}-job", f"{key}: space debited for good")
                self.failed = True
                return
        if stale_hit:
            self.after_stale_hit(key)
            return
        if key is not None:
            st = self.status_of(key)
            if mode == "ok" and job["kind"] == "out" and st == "on_disk":
                self.col.count("pageouts_completed")
            if mode == "ok" and job["kind"] == "in" and st == "in_memory":
                self.col.count("pageins_completed")
            if mode != "ok" or st is None:
                self.content[key] = None if st is not None else self.content.get(key)
                if st is None:
                    self.forget(key)

    def run_guarded(self, fn, what) -> bool:
        """Runs a disk job / callback in a thread (as the store's own pools do). If the thread is still blocked after 5 s *inside
        a lock acquisition of dataset.py* while no other thread exists that could release that lock, it is deadlocked for good:
        page-outs never complete, the eviction lock is never released (C09: satisfiable requests wait for ever)."""
        import sys
        import traceback
        box = {}

        def target():
            try:
                fn()
            except BaseException as e:  # noqa: BLE001
                box["exc"] = e
        th = threading.Thread(target=target, daemon=True)
        th.start()
        th.join(5)
        if not th.is_alive():
            if "exc" in box:
                raise box["exc"]
            return True
        frame = sys._current_frames().get(th.ident)
        stack = traceback.extract_stack(frame) if frame is not None else []
        in_store = [f for f in stack if f.filename.endswith("shm/dataset.py")]
        where = f"{in_store[-1].name}:{in_store[-1].lineno} `{in_store[-1].line}`" if in_store else "?"
        if in_store and ("with self.pageout" in (in_store[-1].line or "") or "acquire" in (in_store[-1].line or "")):
            self.log("deadlock", what, where)
            self.viol("C09", "disk-job-callback-deadlocks-on-store-lock",
                      f"the {what} is blocked for good at {where}; no other thread can release that lock: page-out accounting never completes and the eviction lock stays held")
            self.viol("C08", "disk-job-callback-deadlocks-on-store-lock", f"the {what} is blocked for good at {where}")
        else:
            self.col.not_reached(f"a disk job thread did not finish within 5 s ({what}, at {where})")
        self.failed = True
        return False

    def is_stale_hit(self, job) -> bool:
        """The job was submitted for a dataset that has since been purged and whose key (hence segment name) was allocated again."""
        key = job.get("key")
        cur = self.m.datasets.get(key) if key is not None else None
        return job["kind"] == "out" and cur is not None and cur is not job.get("ds_obj")

    def after_stale_hit(self, key):
        """Known hazard: the page-out worker addresses the segment by name, so it hits the *new* dataset. Report the harm seen, stop."""
        self.col.count("stale_pageout_jobs_hitting_reallocated_key")
        m = self.m
        rs = self.resident_sum()
        if m.free_space != m.capacity - rs:
            self.viol("C08", "stale-pageout-job-hits-reallocated-key:space-credited-twice",
                      f"page-out submitted for an earlier dataset under {key} ran after purge + re-allocation: free_space {m.free_space} != capacity {m.capacity} - resident {rs}")
        ds = m.datasets.get(key)
        if ds is None or (ds.status.name in ("created", "in_memory") and not os.path.exists(seg_path(ds.shmid))):
            self.viol("C09", "stale-pageout-job-hits-reallocated-key:new-dataset-destroyed",
                      f"page-out submitted for an earlier dataset under {key} ran after purge + re-allocation and removed the new dataset's segment")
        self.failed = True  # the store's state is corrupted from here on; nothing further is demanded of this history

    def run_all_jobs(self):
        n = 0
        while self.m.disk.jobs and n < 200:
            self.run_job(self.m.disk.jobs[0])
            n += 1

    def op_race_purge_pageout(self):
        """Purge racing a page-out between the file write and the unlink (real _page_out in a thread, parked at unlink)."""
        d = self.m.disk
        outs = [j for j in d.jobs if j["kind"] == "out" and j.get("key") in self.m.datasets]
        if not outs:
            return
        job = self.rng.choice(outs)
        if self.is_stale_hit(job):
            self.run_job(job)
            return
        d.jobs.remove(job)
        key = job["key"]
        at_unlink, go = threading.Event(), threading.Event()
        real_cls = self.disk_mod.SharedMemory

        class Parking(real_cls):
            def unlink(self_inner):
                at_unlink.set()
                go.wait(10)
                return super().unlink()

        self.disk_mod.SharedMemory = Parking
        th = threading.Thread(target=d.run, args=(job,), daemon=True)
        self.in_callback = True
        try:
            th.start()
            reached = at_unlink.wait(5)
            self.disk_mod.SharedMemory = real_cls
            if reached and key in self.m.datasets:
                size = self.m.datasets[key].size
                free_before = self.m.free_space
                self.m.purge(key)  # the server's main thread serving a PurgeRequest meanwhile
                self.purge_requested.add(key)
                self.log("purge-between-write-and-unlink", key, self.status_of(key))
                self.col.count("purge_pageout_races")
                if key not in self.m.datasets and self.m.free_space != free_before + size:
                    self.viol("C08", "race-purge-credited-wrong-amount", f"{free_before} -> {self.m.free_space} for size {size}")
            go.set()
            th.join(10)
        finally:
            self.disk_mod.SharedMemory = real_cls
            go.set()
            self.in_callback = False
        if key not in self.m.datasets:
            self.forget(key)
        else:
            self.content[key] = None

    def op_advance_clock(self):
        step = self.rng.choice([1, 10**6, 10**9, 60 * 10**9, self.dataset.STALE_READ // 2, self.dataset.STALE_READ + 1, 2 * self.dataset.STALE_CREATE])
        self.clock.now += step
        self.log("clock", step)
        # handles older than the window are forfeited: the store may evict under them
        for k, w in list(self.writers.items()):
            if self.clock.now - w["t0"] > self.dataset.STALE_CREATE - self.MARGIN:
                self.content[k] = None

    def quiesce(self, forget_stale=True):
        for k in list(self.writers):
            self.op_finish_write(k)
        for k, rs in list(self.readers.items()):
            for r in list(rs):
                self.op_finish_read(k, r)
        self.run_all_jobs()

    def op_probe_eventually_granted(self):
        """Bounded restatement of 'eventually granted' (C09): after quiescence a satisfiable request is granted within 3 attempts."""
        m = self.m
        self.quiesce()
        evictable = sum(ds.size for ds in m.datasets.values() if ds.status.name == "in_memory" and not ds.ongoing_reads)
        non_evictable = m.capacity - m.free_space - evictable
        room = m.capacity - non_evictable
        on_disk = [k for k, ds in m.datasets.items() if ds.status.name == "on_disk" and ds.size <= room]
        self.col.count("grant_probes")
        if on_disk and self.rng.random() < 0.5:
            key = self.rng.choice(on_disk)
            kind, attempts = "get", 0
            for attempts in range(1, 5):
                r = self.op_get(key)
                if r == "granted":
                    break
                self.run_all_jobs()
            ok = r == "granted"
            if ok:
                for rd in list(self.readers.get(key, {})):
                    self.op_finish_read(key, rd)
            limit = 3
        else:
            if room < 1:
                return
            size = self.rng.randint(1, room)
            key = f"probe{self.n_ops}"
            kind, attempts, ok = "add", 0, False
            for attempts in range(1, 5):
                got = self.op_allocate(key, size)
                if got is not None:
                    ok = True
                    break
                self.run_all_jobs()
            if ok:
                self.op_finish_write(key)
                self.op_purge(key)
            limit = 3
        self.log("probe", kind, key, attempts, ok)
        if not ok or attempts > limit:
            locked = m.pageout_all.locked()
            mech = "satisfiable-request-waits-forever:eviction-lock-stuck" if locked and m.pageout_count == 0 else "satisfiable-request-waits-forever"
            self.viol("C09", mech, f"{kind}({key}) needing <= {room} B of evictable room still answered 'wait' after {attempts} attempts with all disk jobs run "
                                   f"(free={m.free_space}, capacity={m.capacity}, pageout_all locked={locked}, pageout_count={m.pageout_count})")
        else:
            self.col.count("grant_probes_granted")

    def op_force_nothing_evictable(self):
        """An eviction attempt that finds nothing evictable (everything is being written or read), then the obstacle is removed."""
        m = self.m
        if m.free_space < 1:
            return
        key = f"hold{self.n_ops}"
        got = self.op_allocate(key, m.free_space)  # fill the store with a dataset that is still being written
        if got is None:
            return
        before = self.m.disk.submitted
        self.op_allocate(f"want{self.n_ops}", self.rng.randint(1, self.capacity))  # -> wait; lottery may find nothing
        if self.m.disk.submitted == before:
            self.col.count("eviction_attempts_finding_nothing")
        self.op_probe_eventually_granted()

    # ------------------------------------------------------------------------------------------
    def step(self):
        r = self.rng.random()
        jobs = self.m.disk.jobs
        if r < 0.22:
            self.op_allocate()
        elif r < 0.36:
            self.op_finish_write()
        elif r < 0.54:
            self.op_get()
        elif r < 0.66:
            self.op_finish_read()
        elif r < 0.74:
            self.op_purge()
        elif r < 0.84:
            if jobs:
                self.run_job(jobs[0] if self.rng.random() < 0.5 else self.rng.choice(jobs))
        elif r < 0.87:
            if jobs and self.allow_failures:
                self.run_job(self.rng.choice(jobs), self.rng.choice(["fail-clean", "fail-after-side-effect", "fail-disk-write"]))
        elif r < 0.90:
            self.op_race_purge_pageout()
        elif r < 0.94:
            self.op_advance_clock()
        elif r < 0.97:
            self.op_probe_eventually_granted()
        else:
            self.op_force_nothing_evictable()

    def run(self):
        self.allow_failures = self.rng.random() < 0.4
        try:
            while self.n_ops < self.max_ops and not self.failed:
                self.n_ops += 1
                self.step()
                self.check_accounting(quiescent=True, where=f"after op {self.n_ops}")
            if not self.failed:
                self.quiesce()
                self.check_accounting(True, "final quiescence")
                self.check_status_truth()
                if not self.failed:
                    self.op_probe_eventually_granted()
        finally:
            self.cleanup()
        return self.n_ops

    def cleanup(self):
        self.dataset.time = self.real_time
        for w in self.writers.values():
            if w["shm"] is not None:
                try:
                    w["shm"].close()
                    unregister(w["shm"])
                except Exception:  # noqa: BLE001
                    pass
        for rs in self.readers.values():
            for r in rs.values():
                try:
                    r["shm"].close()
                    unregister(r["shm"])
                except Exception:  # noqa: BLE001
                    pass
        try:
            self.m.disk.atexit()
        except Exception:  # noqa: BLE001
            pass
        try:
            for e in os.scandir("/dev/shm"):
                if e.name.startswith(self.prefix):
                    try:
                        os.unlink(e.path)
                    except OSError:
                        pass
        except OSError:
            pass
