"""C01 -- a distributed run returns exactly the values sequential evaluation would (engine E1 SimCluster; E2 slice in c01 real tier)."""

from vlib.checks import _sim
from vlib.common.core import case_rng, guarded

ID = "C01"
LEVEL = "exploration"
MANIFEST = dict(
    engine="E1-simcluster", engine_path="vlib/simcluster.py",
    kind="(E1) real controller + scheduler against SimBridge (executable nondeterministic model of the executors, seeded adversarial schedulers); task bodies run through the real runner and serde",
    technique="runtime monitoring of the real controller loop behind the Bridge seam: generated jobs x cluster shapes x event-delivery schedules; task callables return symbolic terms identifying every argument and position; the returned State.outputs is compared with an independent sequential evaluator",
    text="Held = for every generated job, environment and schedule the run returned exactly the requested datasets with values equal to sequential evaluation.",
    note="the executors are a model (orders allowed = those the transports allow; per-origin FIFO in the default classes); generated jobs declare their outputs in key-sorted order, so the engine does not depend on the binding order (C10 owns that question).",
)
RULE = ("case = one controller run: generated job DAG (0-16 tasks quick / 40 thorough; layered, triangular, chains, diamonds, fan-in, components, isolated, empty; 1-13 outputs; positional/keyword "
        "edges with static args and gaps; ext_outputs any subset) x environment 1-4 hosts x 1-4 workers (GPU workers as needed) x scheduler policy (uniform, eager, lazy, late, skewed, purge-first, "
        "data-first) x PYTHONHASHSEED per shard; non-trivial = >=2 tasks and >=1 edge; distinct = digest(job skeleton, environment, policy, executor-action/event order)")
ASSUMPTIONS = ["executors eventually execute every command (fair model)", "per-origin FIFO of events except in the reorder-by-retransmission class"]
REQUIRED_COUNTERS = ["runs", "runs_returned", "outputs_compared", "runs_multi_host", "commands_transmit", "commands_fetch", "real_cluster_runs", "real_cluster_outputs_compared"]
_sim_plan = _sim.make_plan("C01", "values", 59)


def run_shard(spec, col):
    """E1 shards (SimCluster) plus a thin E2 slice: generated jobs on a real local cluster (real processes, shm, zmq, serde), no faults."""
    if spec.get("kind") != "real":
        return _sim.run_shard(spec, col)
    from vlib.checks import c05
    seed, shard = spec["seed"], spec["shard"]
    for i in range(spec["n"]):
        if col.out_of_time():
            break
        if col.want(i):
            rng = case_rng(seed, shard, i)
            sc = {"kind": "none", "shape": rng.choice([(1, 1), (1, 2), (2, 1), (2, 2), (3, 1), (2, 3)]), "random_job": True, "max_tasks": 8}
            if i == 0 and spec["shard_no"] == 0:
                sc = {"kind": "none", "shape": rng.choice([(1, 1), (1, 2), (2, 2)]), "ambiguous_names": True}
                col.count("real_runs_with_ambiguous_name_concatenations")
            guarded(col, i, c05.run_scenario, col, sc, spec["shard_no"], i % 8, i, rng, 21000, "C01")


def plan(tier, seed, scale=1.0):
    specs = _sim_plan(tier, seed, scale)
    q = tier == "quick"
    for c in range(4):
        specs.append(dict(kind="real", phase=1, shard=f"real{c}", shard_no=c, n=max(1, int((3 if q else 75) * scale)), budget_s=100 if q else 1500, timeout_s=280 if q else 2400, prop="C01"))
    return specs
