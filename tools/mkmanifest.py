#!/venv/bin/python
"""Regenerates /verif/MANIFEST.json from the table below and validates it against the schema."""

import json
import os
import subprocess

HERE = os.path.dirname(os.path.dirname(os.path.abspath(__file__)))

# id -> (engine, level, technique, level text, level note, design ref)
CHECKS = {
    "C17": ("E7-codec", "exploration",
            "runtime round-trip monitors on the real encoders/decoders over generated boundary and random message values (incl. real UDP shm server and real zmq frames)",
            "Every message value generated (boundary grid of sizes/strings, then seeded random) is pushed through the repository's own ser/deser pair and compared; values inside the domain must not raise, values outside must raise or come back unchanged. Held = on all values generated, not on the whole domain.",
            "Trusts pickle/orjson/pydantic/libzmq themselves; inside-domain for sizes is 0..2^48; datagram size limit (1024 B) is transport, not encoding.",
            "DESIGN.md section 3 C17"),
    "C19": ("E9-builder", "exploration",
            "runtime oracle on generated builder programs: independent well-formedness classifier + value-binding model + persistence digests re-checked after every builder call",
            "Each generated builder program (exec-synthesised callables, with_values, with_node, with_edge with existing/dangling endpoints) runs on the real builders; build() must return an Either, reject exactly what the independent classifier says dangles or conflicts, and an accepted job is re-checked edge by edge; earlier builders and jobs are digest-checked for mutation after every call.",
            "Annotations restricted to builtins/absent; Any-vs-concrete pairs accepted either way; compatibility = issubclass.",
            "DESIGN.md section 3 C19"),
}

NOT_YET = {}

ENGINES = [
    {"name": "E7-codec", "path": "vlib/checks/c17.py", "serves_properties": ["C17"],
     "kind_free_text": "generated message values through the real encoders, offline comparison"},
    {"name": "E9-builder", "path": "vlib/checks/c19.py", "serves_properties": ["C19"],
     "kind_free_text": "generated builder programs against an independent well-formedness oracle"},
]


def main():
    props = [json.loads(l)["id"] for l in open(os.path.join(HERE, "properties.jsonl"))]
    checks = []
    for pid in props:
        if pid not in CHECKS:
            continue
        engine, level, technique, text, note, ref = CHECKS[pid]
        checks.append({
            "property_id": pid,
            "quick_cmd": f"./vcheck {pid} --tier quick",
            "thorough_cmd": f"./vcheck {pid} --tier thorough",
            "evidence_file": f"evidence/{pid}.json",
            "replay_cmd_template": f"./vcheck {pid} --replay {{path}}",
            "engine": engine,
            "level_claimed": {"category": level, "text": text, "design_ref": ref},
            "level_note": note,
            "technique": technique,
        })
    na = [{"property_id": pid, "reason": NOT_YET.get(pid, "check not built yet in this round (runtime-monitoring check planned in DESIGN.md section 3); not claimed until it has been run clean on the unchanged tree")}
          for pid in props if pid not in CHECKS]
    hooks_commits = []
    m = {
        "version": 1,
        "setup_cmd": "/venv/bin/pip install -q --no-index --find-links /opt/veriftools/wheels --target /verif/.deps icontract || true",
        "hooks": {
            "guard": "EARTHKIT_WORKFLOWS_VERIF",
            "enable": "no in-repo hooks: every seam is reached by harness-level patching; checks run /venv/bin/python with PYTHONPATH=/repo/src:/verif so the working tree is what executes (nothing to build)",
            "baseline_off_cmd": "cd /repo && /venv/bin/python -m pytest -ra -q -p no:cacheprovider --timeout=900 --continue-on-collection-errors",
            "source_commits": hooks_commits,
            "add_only": True,
        },
        "engines": ENGINES,
        "checks": checks,
        "notes": "Technique family: runtime monitoring. See DESIGN.md. known_findings.json lists recorded/fixed genuine defects; seeded/ holds independently written property-breaking changes and which check catches them.",
        "not_applicable": na,
    }
    path = os.path.join(HERE, "MANIFEST.json")
    with open(path, "w") as f:
        json.dump(m, f, indent=1)
    r = subprocess.run(["python3-vt", "-c", "import json,jsonschema,sys; jsonschema.validate(json.load(open(sys.argv[1])), json.load(open('/root/.vp/MANIFEST.schema.json'))); print('manifest valid')", path])
    return r.returncode


if __name__ == "__main__":
    raise SystemExit(main())
