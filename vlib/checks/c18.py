"""C18 -- the gateway attributes progress/results to the right job and keeps the newest (engine E8).

The real gateway.server.serve(url) loop runs in a thread; router._spawn_subprocess is replaced by a recorder that
captures each job's report address; server.handle_controller is wrapped by a counter so the harness knows when a
pushed report has been *processed*; frontend requests go through the real client.request_response.
"""

from __future__ import annotations

import base64
import os
import tempfile
import threading
import time

from vlib.common.core import Collector, case_rng, digest, guarded

ID = "C18"
LEVEL = "exploration"
MANIFEST = dict(
    engine="E8-gateway", engine_path="vlib/checks/c18.py",
    kind="real gateway serve loop in a thread driven with generated report/query histories; responses compared with a 15-line reference model",
    technique="runtime monitoring with a reference model: generated histories of progress/result/shutdown reports and frontend queries are played against the real serve() loop over real zmq sockets; every response is compared with a sequential model (newest timestamp wins, results per job+dataset, ids never reused); icontract invariant on JobRouter (job ids only grow)",
    text="Held = in every history every response equalled the model's, unknown jobs/datasets produced an error response and the next request was still answered, all job ids were distinct (also with a low-entropy uuid source), the serve thread stayed alive until ShutdownRequest.",
    note="Spawning real job processes is replaced by a recorder (the local spawn command is outside the statement); equal timestamps may resolve either way; malformed JSON and reports for unknown jobs are not generated.",
)
RULE = (
    "case = one history against a fresh serve() loop: 1-6 jobs, 5-60 steps drawn from progress report (in order / late / equal timestamp / duplicated), "
    "result upload (same dataset id on two jobs, overwrite), shutdown notice, progress query (one, several, all, unknown), result query (known, wrong job, "
    "wrong dataset, unknown job), submit; non-trivial = >=2 jobs and >=1 late report or cross-job dataset; distinct = digest of the step-kind sequence"
)
ASSUMPTIONS = ["zmq PUSH/PULL delivers in order per socket pair", "a report counts as processed when handle_controller returned (counted by a wrapper)"]
REQUIRED_COUNTERS = ["histories", "reports_processed", "progress_queries", "result_queries", "late_reports", "invariant_evaluations"]

_inv = {"evals": 0, "prev": {}, "broken": None}


class InvariantBroken(Exception):
    pass


def jobs_only_grow(self) -> bool:
    _inv["evals"] += 1
    cur = set(getattr(self, "jobs", {}) or {})
    prev = _inv["prev"].get(id(self), set())
    _inv["prev"][id(self)] = cur
    if not prev <= cur:
        _inv["broken"] = f"job ids disappeared: {sorted(prev - cur)}"
        return False
    return True


class ServeDied(Exception):
    pass


class FakeUuidModule:
    """Low-entropy uuid source: the next_uuid membership guard -- not luck -- must keep ids unique."""

    def __init__(self, rng):
        self.rng = rng
        self.pool = [f"id{i}" for i in range(8)]

    def uuid4(self):
        return self.rng.choice(self.pool)


def one_history(col: Collector, rng, index: int):
    import zmq
    import cascade.controller.report as report
    import cascade.gateway.api as gapi
    import cascade.gateway.client as gclient
    import cascade.gateway.router as router
    import cascade.gateway.server as server
    from cascade.low.core import DatasetId

    _inv["prev"].clear()  # one router per history; ids of dead routers may be re-used by CPython
    tmp = tempfile.mkdtemp(prefix="v18")
    url = f"ipc://{tmp}/fe"
    spawned: list[tuple[str, str]] = []
    processed = [0]
    cond = threading.Condition()
    real_spawn, real_handle, real_uuid = router._spawn_subprocess, server.handle_controller, router.uuid
    low_entropy = rng.random() < 0.35

    def rec_spawn(job_spec, addr, job_id):
        spawned.append((job_id, addr))

    def counting_handle(socket, jobs):
        try:
            return real_handle(socket, jobs)
        finally:
            with cond:
                processed[0] += 1
                cond.notify_all()

    router._spawn_subprocess = rec_spawn
    server.handle_controller = counting_handle
    if low_entropy:
        router.uuid = FakeUuidModule(rng)
    crashed = []

    def run_serve():
        try:
            server.serve(url)
        except BaseException as e:  # noqa: BLE001
            crashed.append(repr(e))

    th = threading.Thread(target=run_serve, daemon=True)
    th.start()
    ctx = zmq.Context()
    pushers: dict[str, zmq.Socket] = {}
    # model
    model_prog: dict[str, tuple[int, set]] = {}   # job -> (max timestamp, {acceptable statuses})
    model_res: dict[str, dict] = {}
    closed: set[str] = set()
    sent = 0
    kinds = []
    late = cross = 0
    wit_steps = []
    spec = gapi.JobSpec(benchmark_name="generators", envvars={}, job_instance=None, workers_per_host=1, hosts=1, use_slurm=False)

    def fail(mech, msg):
        col.violation(mech, msg, {"steps": wit_steps[-40:], "low_entropy_uuid": low_entropy}, index)

    def rr(req):
        for attempt in range(4):
            if not th.is_alive():
                raise ServeDied(repr(crashed))
            try:
                return gclient.request_response(req, url, timeout_ms=5000)
            except ValueError as e:
                if "failed to communicate" in str(e) and attempt < 3 and th.is_alive():
                    time.sleep(0.05)
                    continue
                if not th.is_alive():
                    raise ServeDied(repr(crashed))
                raise

    def wait_processed(n):
        with cond:
            ok = cond.wait_for(lambda: processed[0] >= n or not th.is_alive(), timeout=20)
        return ok and processed[0] >= n

    def submit():
        r = rr(gapi.SubmitJobRequest(job=spec))
        if not isinstance(r, gapi.SubmitJobResponse) or r.error or not r.job_id:
            fail("submit-failed", f"{r!r}")
            return None
        jid = r.job_id
        if jid in model_prog:
            fail("job-id-reused", f"job id {jid!r} handed out twice")
            return None
        if not spawned or spawned[-1][0] != jid:
            fail("spawn-not-recorded", f"{jid} vs {spawned[-1:]}")
            return None
        model_prog[jid] = (-1, {"0.00"})
        model_res[jid] = {}
        s = ctx.socket(zmq.PUSH)
        s.setsockopt(zmq.LINGER, 0)
        s.connect(spawned[-1][1])
        pushers[jid] = s
        wit_steps.append(["submit", jid])
        return jid

    try:
        # wait until serving
        t0 = time.time()
        while not os.path.exists(f"{tmp}/fe") and time.time() - t0 < 10:
            time.sleep(0.01)
        njobs = rng.randint(1, 6)
        jobs = []
        for _ in range(rng.randint(1, njobs)):
            j = submit()
            if j is None:
                return
            jobs.append(j)
        ds_pool = [DatasetId("t0", "0"), DatasetId("t0", "1"), DatasetId("t1", "0"), DatasetId("a.b", "x"), DatasetId("a", "b.x"), DatasetId("t", "00"), DatasetId("t0", "")]   # incl. pairs whose printed names coincide
        nsteps = rng.randint(5, 60)
        clock = {j: 1000 for j in jobs}
        for _step in range(nsteps):
            if not th.is_alive():
                break
            k = rng.choice(["progress", "progress", "progress", "result", "result", "shutdown_notice", "q_progress", "q_progress", "q_result", "q_result", "submit", "q_unknown"])
            open_jobs = [j for j in jobs if j not in closed]
            if k == "submit":
                if len(jobs) >= njobs:
                    continue
                j = submit()
                if j is None:
                    return
                jobs.append(j)
                clock[j] = 1000
                kinds.append("submit")
            elif k == "progress":
                if not open_jobs:
                    continue
                j = rng.choice(open_jobs)
                mode = rng.choice(["inorder", "inorder", "late", "equal", "dup"])
                status = "{:.2f}".format(rng.random() * 100)
                if mode == "inorder":
                    clock[j] += rng.randint(1, 50)
                    ts = clock[j]
                elif mode == "late":
                    ts = rng.randint(0, max(0, model_prog[j][0] - 1)) if model_prog[j][0] > 0 else 0
                elif mode == "equal":
                    ts = max(model_prog[j][0], 0)
                else:
                    ts = max(model_prog[j][0], 0)
                    status = sorted(model_prog[j][1])[0]
                if ts < model_prog[j][0]:
                    late += 1
                pushers[j].send(report.serialize(report.ControllerReport(j, status, ts, [])))
                sent += 1
                mt, acc = model_prog[j]
                if ts > mt:
                    model_prog[j] = (ts, {status})
                elif ts == mt:
                    model_prog[j] = (mt, acc | {status})
                kinds.append(f"progress-{mode}")
                wit_steps.append(["progress", j, status, ts])
                if not wait_processed(sent):
                    col.not_reached("a pushed report was not processed within the watchdog") if th.is_alive() else None
                    break
            elif k == "result":
                if not open_jobs:
                    continue
                j = rng.choice(open_jobs)
                ds = rng.choice(ds_pool)
                data = rng.randbytes(rng.choice([0, 1, 16, 300, 300, 70000, (1 << 20) - 1, 1 << 20, (1 << 20) + 1, 3 * (1 << 20) + 7]) if rng.random() < 0.03 else rng.choice([0, 1, 16, 300]))   # large results now and then: nothing in the statement bounds their size
                if any(ds in model_res[o] for o in jobs if o != j):
                    cross += 1
                with_status = rng.random() < 0.2
                clock[j] += 1
                st = "{:.2f}".format(rng.random() * 100) if with_status else None
                pushers[j].send(report.serialize(report.ControllerReport(j, st, clock[j], [(ds, data)])))
                sent += 1
                model_res[j][ds] = data
                if st is not None:
                    mt, acc = model_prog[j]
                    if clock[j] > mt:
                        model_prog[j] = (clock[j], {st})
                kinds.append("result")
                wit_steps.append(["result", j, repr(ds), len(data), st, clock[j]])
                if not wait_processed(sent):
                    break
            elif k == "shutdown_notice":
                if not open_jobs or rng.random() < 0.5:
                    continue
                j = rng.choice(open_jobs)
                clock[j] += 1
                pushers[j].send(report.serialize(report.ControllerReport(j, "Shutdown", clock[j], [])))
                sent += 1
                closed.add(j)
                kinds.append("shutdown-notice")
                wit_steps.append(["shutdown-notice", j])
                if not wait_processed(sent):
                    break
            elif k == "q_progress":
                mode = rng.choice(["one", "several", "all"])
                ids = [] if mode == "all" else rng.sample(jobs, 1 if mode == "one" else rng.randint(1, len(jobs)))
                r = rr(gapi.JobProgressRequest(job_ids=ids))
                col.count("progress_queries")
                kinds.append(f"q-progress-{mode}")
                wit_steps.append(["q_progress", ids])
                want = ids or jobs
                if not isinstance(r, gapi.JobProgressResponse) or r.error:
                    fail("progress-query-error", f"{r!r:.200}")
                    return
                if set(r.progresses) != set(want):
                    fail("progress-query-wrong-jobs", f"asked {want}, got {sorted(r.progresses)}")
                    return
                for j in want:
                    if r.progresses[j] not in model_prog[j][1]:
                        is_shutdown = r.progresses[j] == "Shutdown"
                        fail("progress-erased-by-shutdown" if is_shutdown else "progress-not-newest",
                             f"job {j}: gateway shows {r.progresses[j]!r}, newest report (t={model_prog[j][0]}) says {sorted(model_prog[j][1])}")
                        return
            elif k == "q_result":
                mode = rng.choice(["known", "known", "wrong_job", "wrong_ds", "unknown_job"])
                have = [(j, d) for j in jobs for d in model_res[j]]
                if mode == "known" and have:
                    j, d = rng.choice(have)
                elif mode == "wrong_job" and have and len(jobs) > 1:
                    j0, d = rng.choice(have)
                    others = [o for o in jobs if o != j0]
                    j = rng.choice(others)
                elif mode == "unknown_job":
                    j, d = "no-such-job", rng.choice(ds_pool)
                else:
                    j, d = rng.choice(jobs), DatasetId("never", "uploaded")
                r = rr(gapi.ResultRetrievalRequest(job_id=j, dataset_id=d))
                col.count("result_queries")
                kinds.append(f"q-result-{mode}")
                wit_steps.append(["q_result", j, repr(d)])
                if not isinstance(r, gapi.ResultRetrievalResponse):
                    fail("result-query-wrong-class", repr(r))
                    return
                exp = model_res.get(j, {}).get(d)
                if exp is None:
                    col.count("error_responses_expected")
                    if not r.error or r.result is not None:
                        fail("result-for-wrong-job-or-dataset", f"query ({j}, {d!r}) for which nothing was uploaded returned result={r.result!r:.60} error={r.error!r}")
                        return
                else:
                    if r.error or r.result is None or base64.b64decode(r.result) != exp:
                        fail("result-differs-from-upload", f"query ({j}, {d!r}): error={r.error!r}, {len(base64.b64decode(r.result or b''))} bytes vs {len(exp)} uploaded")
                        return
            else:  # unknown job in a progress query, then the next request must still be served
                r = rr(gapi.JobProgressRequest(job_ids=[rng.choice(jobs), "no-such-job"]))
                col.count("error_responses_expected")
                kinds.append("q-unknown")
                wit_steps.append(["q_progress_unknown"])
                if not isinstance(r, gapi.JobProgressResponse) or not r.error:
                    fail("unknown-job-no-error", f"{r!r:.200}")
                    return
        # final consistency read of everything
        if th.is_alive():
            r = rr(gapi.JobProgressRequest(job_ids=[]))
            col.count("progress_queries")
            if not isinstance(r, gapi.JobProgressResponse) or r.error or set(r.progresses) != set(jobs):
                fail("final-progress-query", f"{r!r:.200}")
            else:
                for j in jobs:
                    if r.progresses[j] not in model_prog[j][1]:
                        fail("progress-erased-by-shutdown" if r.progresses[j] == "Shutdown" else "progress-not-newest",
                             f"job {j}: gateway shows {r.progresses[j]!r}, newest report (t={model_prog[j][0]}) says {sorted(model_prog[j][1])}")
                        break
        if not th.is_alive():
            fail("serve-loop-died", f"serve() ended before ShutdownRequest: {crashed}")
        else:
            r = rr(gapi.ShutdownRequest())
            if not isinstance(r, gapi.ShutdownResponse):
                fail("shutdown-response", repr(r))
            th.join(5)
            if th.is_alive():
                fail("serve-loop-survives-shutdown", "serve() still running after ShutdownRequest")
        if _inv["broken"]:
            fail("router-invariant-broken", _inv["broken"])
            _inv["broken"] = None
        col.count("histories")
        col.count("reports_processed", processed[0])
        col.count("late_reports", late)
        col.count("cross_job_datasets", cross)
        if low_entropy:
            col.count("histories_low_entropy_uuid")
        col.case(shape=digest(kinds), nontrivial=len(jobs) >= 2 and (late > 0 or cross > 0),
                 sample={"jobs": len(jobs), "steps": wit_steps[:25], "low_entropy_uuid": low_entropy})
    except ServeDied as e:
        if _inv["broken"]:
            fail("router-invariant-broken", _inv["broken"])
            _inv["broken"] = None
        else:
            fail("serve-loop-died", f"serve() ended before ShutdownRequest: {e}")
    finally:
        router._spawn_subprocess, server.handle_controller, router.uuid = real_spawn, real_handle, real_uuid
        if th.is_alive():
            try:
                gclient.request_response(gapi.ShutdownRequest(), url, timeout_ms=2000)
            except Exception:  # noqa: BLE001
                pass
            th.join(2)
        for s in pushers.values():
            s.close(0)
        ctx.term()
        import shutil
        shutil.rmtree(tmp, ignore_errors=True)


def run_shard(spec, col: Collector):
    import logging
    import icontract
    import cascade.gateway.router as router
    import cascade.gateway.server as server
    logging.getLogger("cascade").setLevel(logging.CRITICAL)
    server.JobRouter = icontract.invariant(jobs_only_grow, error=InvariantBroken)(router.JobRouter)
    seed, shard = spec["seed"], spec["shard"]
    for i in range(spec["n"]):
        if col.out_of_time():
            break
        if col.want(i):
            guarded(col, i, one_history, col, case_rng(seed, shard, i), i)
    col.count("invariant_evaluations", _inv["evals"])


def plan(tier, seed, scale=1.0):
    q = tier == "quick"
    n, copies = (100, 8) if q else (2500, 16)
    return [dict(shard=f"g{c}", n=int(n * scale), budget_s=60 if q else 900, timeout_s=180 if q else 1500,
                 hash_seed=(seed * 37 + c) % 4294967295) for c in range(copies)]
