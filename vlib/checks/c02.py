"""C02 -- every task is dispatched exactly once, to a free worker, after its inputs exist (engine E1 SimCluster + worker protocol harness)."""

from __future__ import annotations

import json
import math
import os
import signal
import subprocess
import tempfile

from vlib.checks import _sim
from vlib.common.core import Collector, digest

ID = "C02"
LEVEL = "exploration"
MANIFEST = dict(
    engine="E1-simcluster", engine_path="vlib/simcluster.py",
    kind="real controller + scheduler against SimBridge (executable nondeterministic model of the executors); plus the real worker entrypoint in a forked process with a real shm server, driven through every permutation of TaskSequence / DatasetPublished messages",
    technique="runtime monitoring of the real controller behind the Bridge seam: every Bridge.task_sequence call is checked online against the model's ground truth (task not sent before, worker exists, is free, has a GPU if needed, every input produced, input on the target host or its transfer commanded; at return every task was dispatched). Worker clause: the real entrypoint receives the task command and the publication notices of its inputs in every order (<=4 inputs exhaustive: 153 orders; larger sampled), each input being written to shared memory just before its notice (inputs come from producers with 1-3 outputs, so a sibling output of the same task may already be on the host); a wrapper around execute_sequence records at the instant the sequence starts whether every required input is readable; exactly one start, no start before the last input, correct published value",
    text="Held = every dispatch in every simulated run satisfied all clauses, and in every message order the real worker started the sequence exactly once, only after all inputs were readable on its host, and published the value sequential evaluation gives.",
    note="the executors in E1 are a model (orders allowed are those the transports allow); the worker harness uses one real worker process and one real shm server per shard.",
)
RULE = ("case = one controller run (generated job DAG x environment 1-4 hosts x 1-4 workers x scheduler policy x hash seed, see C01; every task_sequence command is one monitor evaluation) or one worker-protocol "
        "round (a task with 0-6 inputs, one permutation of [TaskSequence, notice_1..notice_k], optional duplicate notices and unrelated purges); non-trivial = >=2 tasks and >=1 edge, or >=1 input; "
        "distinct = digest(job skeleton, environment, policy, order) resp. (k, permutation)")
ASSUMPTIONS = ["executors eventually execute every command they were given (fair model)", "per-origin FIFO of events except in the reorder-by-retransmission class"]
REQUIRED_COUNTERS = ["runs", "commands_task_sequence", "tasks_executed", "runs_multi_host", "commands_transmit", "worker_rounds", "worker_orders_overtaking_notice", "worker_rounds_sibling_outputs_split_by_command", "worker_values_checked"]

ENUM = [(k, pi) for k in range(0, 5) for pi in range(math.factorial(k + 1))]   # 153 message orders for <=4 inputs


def run_worker_shard(spec, col: Collector):
    from vlib.common.driver import PY, child_env
    import random
    rng = random.Random(f"{spec['seed']}/{spec['shard']}")
    mine = spec["enum"]
    rounds = [k for (k, _pi) in mine] + [rng.randint(5, 6) for _ in range(spec["n_random"])]
    perm_index = {str(j): pi for j, (_k, pi) in enumerate(mine)}
    no = spec["shard_no"]
    from vlib.common import ports
    block, base = ports.acquire()
    wspec = {"seed": f"{spec['seed']}/{spec['shard']}", "tmp": tempfile.mkdtemp(prefix=f"v02w{no}-"), "host": f"wp{block:03x}", "shm_port": base + 3,
             "callback": f"tcp://localhost:{base + 1}", "rounds": rounds, "perm_index": perm_index}
    fd, path = tempfile.mkstemp(prefix="v02spec", suffix=".json")
    with os.fdopen(fd, "w") as f:
        json.dump(wspec, f)
    out = ""
    try:
        p = subprocess.Popen([PY, "-m", "vlib.workerproto", path], env=child_env(), cwd=os.path.dirname(os.path.dirname(os.path.dirname(os.path.abspath(__file__)))),
                             stdout=subprocess.PIPE, stderr=subprocess.DEVNULL, start_new_session=True, text=True)
        try:
            out, _ = p.communicate(timeout=spec["timeout_s"] - 20)
        except subprocess.TimeoutExpired:
            out = ""
        finally:
            try:
                os.killpg(p.pid, signal.SIGKILL)
            except ProcessLookupError:
                pass
            p.wait()
    finally:
        os.unlink(path)
        import shutil
        ports.release(block)
        shutil.rmtree(wspec["tmp"], ignore_errors=True)
    res = None
    for ln in out.splitlines():
        if ln.startswith("RESULT "):
            res = json.loads(ln[7:])
    if res is None or res.get("outcome") != "ok":
        col.not_reached(f"worker protocol harness produced no result: {(res or {}).get('error', 'timeout')[-300:]}")
        return
    st = res["stats"]
    for j, k in enumerate(rounds[: st["rounds"]]):
        col.case(shape=digest("worker", k, perm_index.get(str(j), f"random{j}")), nontrivial=k >= 1,
                 sample={"worker_round": j, "inputs": k, "permutation_index": perm_index.get(str(j))} if j < 2 else None)
    col.count("worker_rounds", st["rounds"])
    col.count("worker_starts", st["starts"])
    col.count("worker_values_checked", st["values_checked"])
    col.count("worker_orders_overtaking_notice", st["commands_overtaking_notice"])
    col.count("worker_rounds_sibling_outputs_split_by_command", st.get("sibling_outputs_split_by_command", 0))
    for mech, msg in res["violations"]:
        col.violation(f"worker:{mech}", msg, {"rounds": rounds, "perm_index": perm_index}, None)


def run_shard(spec, col: Collector):
    if spec.get("kind") == "worker":
        return run_worker_shard(spec, col)
    return _sim.run_shard(spec, col)


_sim_plan = _sim.make_plan("C02", "values", 61)


def plan(tier, seed, scale=1.0):
    specs = _sim_plan(tier, seed, scale)
    q = tier == "quick"
    if q:
        small = [e for e in ENUM if e[0] <= 3]
        nsh = 4
        parts = [small[i::nsh] for i in range(nsh)]
        extra = [[ENUM[33 + (seed * 7 + i * 13 + j) % 120] for j in range(3)] for i in range(nsh)]
        parts = [a + b for a, b in zip(parts, extra)]
    else:
        nsh = 8
        parts = [ENUM[i::nsh] for i in range(nsh)]
    for i, part in enumerate(parts):
        specs.append(dict(kind="worker", phase=1, shard=f"w{i}", shard_no=i, enum=part, n_random=1 if q else 8, budget_s=100 if q else 900, timeout_s=200 if q else 1200, prop="C02"))
    return specs
