"""E3 second tier -- LossyZmq: the same two endpoints as NetSim (real Bridge through its real handshake, real Executor.recv_loop
on an Executor built without child processes) over REAL zmq TCP sockets on localhost, in real time with shortened graces.
Faults: the sockets in ReliableSender.hosts are wrapped by a proxy that drops / duplicates / delays data frames, and
comms.callback is wrapped for Ack messages. Confirms that the NetSim shim does not misrepresent zmq.

A give-up ('retried too many times') under a finite-loss plan can here be caused by the harness's own timing on a loaded
machine; such a history is inconclusive, never violating (DESIGN section 3, C06).
"""

from __future__ import annotations

import threading
import time


class Stub:
    exitcode = None
    pid = 0

    def is_alive(self):
        return False

    def join(self, *a):
        pass

    def kill(self):
        pass


class ProxySocket:
    def __init__(self, real, plan, direction, stats):
        self.real, self.plan, self.direction, self.stats = real, plan, direction, stats
        self.lock = threading.Lock()

    def send_multipart(self, frames):
        n, delay = self.plan("data", self.direction, frames)
        self.stats["data_frames"] = self.stats.get("data_frames", 0) + 1
        if n == 0:
            self.stats["dropped"] = self.stats.get("dropped", 0) + 1
            return
        if n > 1:
            self.stats["duplicated"] = self.stats.get("duplicated", 0) + n - 1
        frames = [bytes(f) for f in frames]

        def go():
            try:
                if delay:
                    time.sleep(delay)
                with self.lock:
                    for _ in range(n):
                        self.real.send_multipart(frames)
            finally:
                if delay:
                    with self.lock:
                        self.stats["held_pending"] = self.stats.get("held_pending", 0) - 1
        if delay:
            self.stats["held"] = self.stats.get("held", 0) + 1
            with self.lock:
                self.stats["held_pending"] = self.stats.get("held_pending", 0) + 1
            threading.Thread(target=go, daemon=True).start()
        else:
            go()

    def __getattr__(self, k):
        return getattr(self.real, k)


def run_history(rng, base_port: int, plan_class: str, n_c: int, n_e: int, grace_ms: int = 60):
    """Returns dict(sent, delivered, raised, stats, quiescent)."""
    import cascade.executor.bridge as bridge_mod
    import cascade.executor.comms as comms
    import cascade.executor.executor as executor_mod
    from cascade.executor.msg import Ack, DatasetPublished, ExecutorRegistration, TaskSequence, Worker
    from cascade.executor.serde import ser_message
    from cascade.low.core import DatasetId, WorkerId
    saved = (bridge_mod.resend_grace_ms, executor_mod.resend_grace_ms, comms.callback)
    bridge_mod.resend_grace_ms = grace_ms
    executor_mod.resend_grace_ms = grace_ms
    caddr, eaddr, daddr = f"tcp://localhost:{base_port}", f"tcp://localhost:{base_port + 1}", f"tcp://localhost:{base_port + 2}"
    stats: dict = {}
    p_loss = rng.choice([0.1, 0.25, 0.4])
    fails: dict = {}
    active = [False]

    def plan(kind, direction, frames_or_idx):
        if not active[0] or plan_class == "none":
            return 1, 0
        key = (direction, kind)
        r = rng.random()
        if plan_class in ("loss", "mixed") and r < p_loss and fails.get(key, 0) < 6:
            fails[key] = fails.get(key, 0) + 1
            return 0, 0
        fails[key] = 0
        n = rng.randint(2, 3) if plan_class in ("dup", "mixed") and r > 0.8 else 1
        delay = rng.choice([0.01, 0.05, 0.15]) if plan_class in ("hold", "mixed") and rng.random() < 0.3 else 0
        return n, delay

    real_cb = comms.callback

    def cb(address, msg):
        if isinstance(msg, Ack):
            stats["acks"] = stats.get("acks", 0) + 1
            n, delay = plan("ack", "to-c" if address == caddr else "to-e", msg.idx)
            if n == 0:
                stats["acks_dropped"] = stats.get("acks_dropped", 0) + 1
                return
            for _ in range(n):
                real_cb(address, msg)
            return
        real_cb(address, msg)
    comms.callback = cb
    sent = {"c2e": [], "e2c": []}
    delivered = {"c2e": [], "e2c": []}
    raised = {"c2e": None, "e2c": None}
    lock = threading.Lock()

    def wrap_sender(sender, d):
        real = sender.send

        def send(host, m, real=real):
            with lock:
                sent[d].append(m)
            return real(host, m)
        sender.send = send

    polls: dict = {"ex": 0, "dl": 0, "br": 0}
    by_address = {caddr: ("e2c", "br"), eaddr: ("c2e", "ex"), daddr: ("c2e", "dl")}
    real_recv_messages = comms.Listener.recv_messages

    def recv_messages(self, timeout_ms=1000):
        # class-level: also what Bridge.__init__ consumes during the handshake is recorded (a heart-beat registration may arrive there)
        ms = real_recv_messages(self, timeout_ms)
        d = by_address.get(self.address)
        if d is not None:
            with lock:
                delivered[d[0]].extend(ms)
                polls[d[1]] += 1
        return ms
    comms.Listener.recv_messages = recv_messages

    def wrap_listener(lst, d, name):
        pass

    ex = object.__new__(executor_mod.Executor)
    threads = []
    try:
        hid = f"lz{base_port}"
        ex.host = hid
        ex.job_instance, ex.param_source, ex.controller_address = None, {}, caddr
        ex.workers = {WorkerId(hid, "w0"): Stub()}
        # the executor forwards commands and notices to its workers with callback(): give those sockets a peer, or every
        # forward blocks the loop for the 1 s linger and the (shortened) retry budget of unrelated messages runs out
        import zmq
        from cascade.executor.runner.entrypoint import worker_address
        wctx = zmq.Context()
        wsinks = []
        for w_ in ex.workers:
            ws = wctx.socket(zmq.PULL)
            ws.bind(worker_address(w_))
            wsinks.append(ws)
        ex.datasets = set()
        ex.heartbeat_watcher = comms.GraceWatcher(grace_ms=executor_mod.heartbeat_grace_ms)
        ex.terminating = False
        ex.mlistener = comms.Listener(eaddr)
        ex.sender = comms.ReliableSender(ex.mlistener.address, grace_ms)
        ex.sender.add_host("controller", caddr)
        ex.shm_process, ex.data_server = Stub(), Stub()
        ex.daddress = daddr
        ex.registration = ExecutorRegistration(host=hid, maddress=eaddr, daddress=daddr, workers=[Worker(worker_id=w, cpu=1, gpu=0, memory_mb=1) for w in ex.workers])
        dl = comms.Listener(daddr)
        wrap_sender(ex.sender, "e2c")
        wrap_listener(ex.mlistener, "c2e", "ex")
        wrap_listener(dl, "c2e", "dl")
        ex.to_controller(ex.registration)
        bridge = bridge_mod.Bridge(caddr, 1)
        wrap_sender(bridge.sender, "c2e")
        wrap_listener(bridge.mlistener, "e2c", "br")
        # proxies on the data path of both senders
        for host, (sock, addr) in list(bridge.sender.hosts.items()):
            bridge.sender.hosts[host] = (ProxySocket(sock, plan, "c2e", stats), addr)
        for host, (sock, addr) in list(ex.sender.hosts.items()):
            ex.sender.hosts[host] = (ProxySocket(sock, plan, "e2c", stats), addr)
        stop = threading.Event()

        def ex_loop():
            try:
                ex.recv_loop()
            except BaseException as e:  # noqa: BLE001
                raised["e2c"] = repr(e)
            if ex.terminating and raised["e2c"] is None:
                fails_ = [m for m in sent["e2c"] if type(m).__name__ == "ExecutorFailure"]
                raised["e2c"] = fails_[0].detail if fails_ else "terminated"

        def c_loop():
            while not stop.is_set():
                try:
                    bridge.recv_events()
                except ValueError as e:
                    raised["c2e"] = str(e)
                    return

        def d_loop():
            while not stop.is_set():
                dl.recv_messages(20)
                for ws in wsinks:
                    try:
                        while True:
                            ws.recv(zmq.NOBLOCK)
                    except zmq.Again:
                        pass

        for fn in (ex_loop, c_loop, d_loop):
            th = threading.Thread(target=fn, daemon=True)
            th.start()
            threads.append(th)
        active[0] = True
        # local injection socket into the executor (a worker's publication), never subject to faults
        zc = zmq.Context()
        inj = zc.socket(zmq.PUSH)
        inj.connect(eaddr)
        todo = [("c", i) for i in range(n_c)] + [("e", i) for i in range(n_e)]
        rng.shuffle(todo)
        w0 = next(iter(ex.workers))
        for who, i in todo:
            if who == "c" and raised["c2e"] is None:
                k = rng.choice(["ts", "purge", "transmit", "fetch"])
                ds = DatasetId(f"c{i}", "0")
                try:
                    if k == "ts":
                        bridge.task_sequence(TaskSequence(worker=w0, tasks=[f"c{i}"], publish={ds}))
                    elif k == "purge":
                        bridge.purge(hid, ds)
                    elif k == "transmit":
                        bridge.transmit(ds, hid, hid)
                    else:
                        bridge.fetch(ds, hid)
                except Exception as e:  # noqa: BLE001
                    raised["c2e"] = repr(e)
            elif who == "e" and not ex.terminating:
                inj.send(ser_message(DatasetPublished(origin=w0, ds=DatasetId(f"e{i}", "0"), transmit_idx=None)))
            time.sleep(rng.choice([0, 0.001, 0.01]))
        # quiescence in real time: nothing in flight at either sender, no frame still held by a proxy thread, every local
        # injection already taken up by the executor -- and all of that still true after every listener has completed two
        # further polls (the record of a delivery is appended just after the ack has left)
        n_inj = sum(1 for who, _i in todo if who == "e")
        deadline = time.time() + 12
        quiescent = False

        def at_rest():
            c_done = raised["c2e"] is not None or not bridge.sender.inflight
            e_done = ex.terminating or not ex.sender.inflight
            with lock:
                taken = sum(1 for m in sent["e2c"] if type(m).__name__ == "DatasetPublished")
            return c_done and e_done and stats.get("held_pending", 0) == 0 and (ex.terminating or taken >= n_inj)
        while time.time() < deadline:
            if at_rest():
                time.sleep(0.3)   # let late duplicates arrive
                p0, ts = dict(polls), time.time()
                n0 = (len(sent["c2e"]), len(sent["e2c"]))

                def settled():
                    return all(polls[k] >= p0[k] + 2 for k in polls if not (k == "br" and raised["c2e"] is not None) and not (k == "ex" and ex.terminating))
                while time.time() - ts < 5 and not settled():
                    time.sleep(0.01)
                if settled() and at_rest() and n0 == (len(sent["c2e"]), len(sent["e2c"])):
                    quiescent = True
                    break
            time.sleep(0.02)
        active[0] = False
        if ex.terminating:
            # the executor is on its way out (it gave up, or lost its controller): its loop may not have unwound yet
            threads[0].join(5)
            with lock:
                if raised["e2c"] is None:
                    raised["e2c"] = "terminating"
        stop.set()
        inj.close(0)
        return {"sent": {k: list(v) for k, v in sent.items()}, "delivered": {k: list(v) for k, v in delivered.items()}, "raised": dict(raised), "stats": dict(stats), "quiescent": quiescent}
    finally:
        ex.terminating = True
        comms.callback = real_cb
        comms.Listener.recv_messages = real_recv_messages
        bridge_mod.resend_grace_ms, executor_mod.resend_grace_ms, _ = saved
        for th in threads:
            th.join(1.5)
        import glob
        import os
        for f in glob.glob(f"/tmp/lz{base_port}.w*.socket"):
            try:
                os.unlink(f)
            except OSError:
                pass


def main():
    """python -m vlib.lossyzmq <spec.json>: one history per process (zmq contexts of a finished history cannot be torn down
    reliably while its loops may still hold sockets), prints one RESULT line."""
    import json
    import os
    import random
    import sys
    import traceback
    import logging
    logging.disable(logging.CRITICAL)
    spec = json.load(open(sys.argv[1]))
    try:
        rng = random.Random(spec["seed"])
        r = run_history(rng, spec["base_port"], spec["plan_class"], spec["n_c"], spec["n_e"])
        key = lambda m: [type(m).__name__, repr(m)]  # noqa: E731
        res = {"outcome": "ok", "quiescent": r["quiescent"], "raised": r["raised"], "stats": r["stats"],
               "sent": {d: [key(m) for m in v] for d, v in r["sent"].items()}, "delivered": {d: [key(m) for m in v] for d, v in r["delivered"].items()}}
    except Exception:  # noqa: BLE001
        res = {"outcome": "harness-error", "error": traceback.format_exc()[-1200:]}
    sys.stdout.write("RESULT " + json.dumps(res) + "\n")
    sys.stdout.flush()
    os._exit(0)


if __name__ == "__main__":
    main()
