"""Shared plumbing: seeds, collector (in-shard aggregation), digests, JSON-safe dumps."""

from __future__ import annotations

import hashlib
import json
import os
import random
import time
import traceback
from typing import Any

VERIF_DIR = os.path.dirname(os.path.dirname(os.path.dirname(os.path.abspath(__file__))))
REPO_DIR = os.environ.get("VERIF_REPO", "/repo")

MAX_WITNESSES_PER_MECH = 3
MAX_SAMPLES = 4


def digest(*parts: Any) -> str:
    h = hashlib.blake2b(digest_size=8)
    for p in parts:
        h.update(repr(p).encode("utf-8", "backslashreplace"))
        h.update(b"\x00")
    return h.hexdigest()


def case_rng(seed: int, shard: Any, index: int) -> random.Random:
    """A case is a pure function of (VERIF_SEED, shard id, index)."""
    return random.Random(f"{seed}/{shard}/{index}")


def jsonable(o: Any, depth: int = 0) -> Any:
    """Best-effort conversion of arbitrary witnesses to JSON."""
    if depth > 12:
        return repr(o)[:200]
    if o is None or isinstance(o, (bool, int, str)):
        return o
    if isinstance(o, float):
        return o if o == o and abs(o) != float("inf") else repr(o)
    if isinstance(o, bytes):
        return {"bytes_len": len(o), "head": o[:24].hex()}
    if isinstance(o, dict):
        return {str(k): jsonable(v, depth + 1) for k, v in o.items()}
    if isinstance(o, (list, tuple, set, frozenset)):
        seq = list(o)
        if isinstance(o, (set, frozenset)):
            seq = sorted(seq, key=repr)
        return [jsonable(v, depth + 1) for v in seq[:400]]
    return repr(o)[:400]


class Collector:
    """Aggregates what the deciding monitor observed inside one shard."""

    def __init__(self, pid: str, spec: dict):
        self.pid = pid
        self.spec = spec
        self.evaluations = 0
        self.shapes: set[str] = set()
        self.states: set[str] = set()
        self.counters: dict[str, int] = {}
        self.violations: dict[str, list[dict]] = {}
        self.violation_count = 0
        self.samples: list[Any] = []
        self.inconclusive: list[str] = []
        self.observations: dict[str, int] = {}
        self.t0 = time.time()
        self.budget_s = float(spec.get("budget_s", 1e9))
        self.only = spec.get("only")  # replay: a single case index

    # -- case bookkeeping -------------------------------------------------------
    def want(self, index: int) -> bool:
        return self.only is None or self.only == index

    def out_of_time(self) -> bool:
        return time.time() - self.t0 > self.budget_s

    def case(self, shape: Any = None, nontrivial: bool = True, sample: Any = None) -> None:
        self.evaluations += 1
        if nontrivial and shape is not None:
            self.shapes.add(shape if isinstance(shape, str) and len(shape) == 16 else digest(shape))
        if sample is not None and len(self.samples) < MAX_SAMPLES:
            self.samples.append(jsonable(sample))

    def count(self, name: str, n: int = 1) -> None:
        self.counters[name] = self.counters.get(name, 0) + n

    def state(self, s: Any) -> None:
        self.states.add(s if isinstance(s, str) and len(s) == 16 else digest(s))

    def observe(self, name: str, n: int = 1) -> None:
        """Things worth reporting that are not demanded by the property."""
        self.observations[name] = self.observations.get(name, 0) + n

    def violation(self, mech: str, msg: str, witness: Any = None, index: int | None = None) -> None:
        self.violation_count += 1
        lst = self.violations.setdefault(mech, [])
        if len(lst) < MAX_WITNESSES_PER_MECH:
            lst.append(
                {
                    "mechanism": mech,
                    "message": msg[:2000],
                    "witness": jsonable(witness),
                    "replay": {"spec": {k: v for k, v in self.spec.items() if k != "only"}, "only": index},
                }
            )

    def not_reached(self, reason: str) -> None:
        if reason not in self.inconclusive:
            self.inconclusive.append(reason)

    def summary(self) -> dict:
        return {
            "spec": self.spec,
            "evaluations": self.evaluations,
            "shapes": sorted(self.shapes),
            "states": sorted(self.states),
            "counters": self.counters,
            "observations": self.observations,
            "violations": self.violations,
            "violation_count": self.violation_count,
            "samples": self.samples,
            "inconclusive": self.inconclusive,
            "wall_s": round(time.time() - self.t0, 3),
        }


def guarded(col: Collector, index: int, fn, *a, **k) -> None:
    """Run one case; a harness bug must never look like 'held'."""
    try:
        fn(*a, **k)
    except Exception:  # noqa: BLE001 -- harness failure, reported as inconclusive
        col.not_reached(f"harness-exception case={index}: {traceback.format_exc()[-1500:]}")


def dump_json(path: str, obj: Any) -> None:
    os.makedirs(os.path.dirname(path), exist_ok=True)
    tmp = f"{path}.tmp{os.getpid()}"
    with open(tmp, "w") as f:
        json.dump(obj, f, indent=1, sort_keys=False, default=lambda o: repr(o)[:400])
    os.replace(tmp, path)
