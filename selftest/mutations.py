"""Mutation catalogue for the self-test: small plausible edits (drop a guard, reorder two sends, off-by-one, wrong key,
stale cache) that break one property while the repository's own 133 tests still pass.

Each entry: (id, property, file relative to the repo, old text, new text, note)."""

M = []


def m(mid, prop, path, old, new, note=""):
    M.append(dict(id=mid, prop=prop, path=path, old=old, new=new, note=note))


R = "src/cascade/executor/runner/runner.py"
NOTIFY = "src/cascade/controller/notify.py"
ACT = "src/cascade/controller/act.py"
ASSIGN = "src/cascade/scheduler/assign.py"
API = "src/cascade/scheduler/api.py"
CORE = "src/cascade/scheduler/core.py"
SGRAPH = "src/cascade/scheduler/graph.py"
COMMS = "src/cascade/executor/comms.py"
EXEC = "src/cascade/executor/executor.py"
DS = "src/cascade/executor/data_server.py"
SHMD = "src/cascade/shm/dataset.py"
SHMA = "src/cascade/shm/api.py"
DISK = "src/cascade/shm/disk.py"
INTO = "src/cascade/low/into.py"
BUILD = "src/cascade/low/builders.py"
ROUTER = "src/cascade/gateway/router.py"
SERVER = "src/cascade/gateway/server.py"
FLUENT = "src/earthkit/workflows/fluent.py"
BACK = "src/earthkit/workflows/backends/__init__.py"
BARR = "src/earthkit/workflows/backends/arrayapi.py"
BXR = "src/earthkit/workflows/backends/xarray.py"
G = "src/earthkit/workflows/graph/"

# ---- C01 ------------------------------------------------------------------------------------------------
m("c01-kwargs-swallow", "C01", R, "        if isinstance(param_pos, str):\n            kwargs[param_pos] = value", "        if isinstance(param_pos, str):\n            kwargs.setdefault(param_pos, value)", "an upstream value no longer overrides a static keyword")
m("c01-ensure-off-by-one", "C01", R, "        idx = int(idx_str)\n        ensure(args, idx)\n        args[idx] = arg", "        idx = int(idx_str)\n        ensure(args, idx)\n        args[max(idx - 1, 0) if idx == 3 else idx] = arg", "static positional #3 lands on #2")
m("c01-fetch-second-host-ignored", "C01", NOTIFY, "            state = consider_fetch(state, event.ds, host)", "            if event.transmit_idx is None or event.ds.output != \"1\":\n                state = consider_fetch(state, event.ds, host)", "harmless-looking filter; breaks nothing by itself (control)")
m("c01-reverse-generator-outputs", "C01", R, "    outputs = list(task.definition.output_schema.items())\n", "    outputs = list(task.definition.output_schema.items())\n    if len(outputs) == 3:\n        outputs.reverse()\n", "3-output tasks bind yields in reverse")
m("c10-single-output-generator-object", "C10", R, "    single = outputsN == 1 and not isgenerator(result)\n", "    single = outputsN == 1\n", "a generator declared with one output has the generator object stored (the repaired defect)")
m("c01-shm-key-concatenation", "C01", "src/cascade/executor/runner/memory.py", "    h.update(f\"{len(ds.task)}:{ds.task}{ds.output}\".encode())\n", "    h.update((ds.task + ds.output).encode())\n", "shm key = md5(task + output) again (the repaired defect): (t1, 10) and (t11, 0) collide")
m("c10-one-edge-per-input-name", "C10", "src/cascade/low/into.py", "            for position in rev_lookup[param]:\n", "            for position in rev_lookup[param][-1:]:\n", "an input occupying two argument positions is wired at the last one only (the repaired defect)")
m("c09-failed-pagein-via-purge", "C09", "src/cascade/shm/dataset.py", "                try:\n                    shm = SharedMemory(ds.shmid, create=False)\n                    shm.unlink()\n                    shm.close()\n                except FileNotFoundError:\n                    pass\n                with self.pageout_one:\n                    self.free_space += ds.size\n                self.datasets.pop(key, None)\n", "                self.purge(key)\n", "failed page-in cleans up through purge() again (the repaired defect): stuck in paged_in when no segment exists")
m("c05-shm-server-stopped-before-data-server", "C05", EXEC, "            self.data_server.kill()\n            self.data_server.join()\n", "            pass\n", "data server is not stopped before the shm server (nor at all): teardown order / leaked process")
m("c10-sort-outputs-again", "C10", R, "    outputs = list(task.definition.output_schema.items())\n", "    outputs = sorted(task.definition.output_schema.items())\n", "generator outputs bound in key-sorted order again (the repaired defect)")
m("c05-healthcheck-after-shutdown", "C05", EXEC, "                if self.terminating:\n                    # orderly shutdown: the children have just been stopped on purpose\n                    break\n", "", "health check runs again after an orderly shutdown (spurious ExecutorFailure; equivalent for C05)")
# ---- C02 ------------------------------------------------------------------------------------------------
m("c02-no-pop-computable", "C02", ASSIGN, "            component.computable.pop(task)\n            component.worker2task_values.remove(task)\n            remaining_t.remove(task)", "            component.worker2task_values.remove(task)\n            remaining_t.remove(task)", "task stays computable after assignment in the greedy branch")
m("c02-idle-on-any-output", "C02", NOTIFY, "    return len(published) == len(definition.output_schema)", "    return len(published) >= 1", "worker re-becomes idle when *any* output is published")
m("c02-ignore-gpu", "C02", ASSIGN, "        if job.tasks[task].definition.needs_gpu:\n            gpu_t.append(task)", "        if job.tasks[task].definition.needs_gpu and len(workers) > 2:\n            gpu_t.append(task)", "GPU requirement ignored on small hosts")
m("c02-worker-lost-wakeup", "C02", "src/cascade/executor/runner/entrypoint.py", "                    if waiting_ts is not None and (not missing_ds):\n", "                    if waiting_ts is not None and (not missing_ds) and len(availab_ds) % 2:\n", "worker forgets to start the waiting sequence when the number of known datasets is even (lost wake-up)")
m("c02-worker-starts-on-first-notice", "C02", "src/cascade/executor/runner/entrypoint.py", "                    if waiting_ts is not None and (not missing_ds):\n", "                    if waiting_ts is not None:\n", "worker starts the waiting sequence on the first notice of a missing input")
m("c02-skip-remote-prep", "C02", ASSIGN, "                    prep.append((dataset, candidate))\n", "                    if len(state.ds2host[dataset]) < 2:\n                        prep.append((dataset, candidate))\n", "no transfer commanded when the dataset already has two holders")
# ---- C03 ------------------------------------------------------------------------------------------------
m("c03-ongoing-double-decrement", "C03", NOTIFY, "                    state.ongoing_total -= 1\n                    state.remaining -= 1", "                    state.ongoing_total -= 2 if len(state.ongoing[worker]) == 0 and state.remaining == 3 else 1\n                    state.remaining -= 1", "ongoing_total decremented twice in a corner")
m("c03-no-migrate", "C03", API, "        if (component := state.host2component[worker.host]) is None or (\n            state.components[component].weight == 0\n        ):", "        if (component := state.host2component[worker.host]) is None:", "hosts whose component is exhausted never migrate")
m("c03-computable-not-decremented", "C03", ASSIGN, "                state.computable -= 1\n                state.idle_workers.remove(worker)\n                was_assigned = True", "                state.idle_workers.remove(worker)\n                was_assigned = True", "state.computable left un-decremented in the optimum-distance branch (spin)")
m("c03-overhead-only-for-host", "C03", NOTIFY, "                for worker in component.worker2task_distance.keys():\n                    # NOTE this is a task newly made computable", "                for worker in state.host2workers[host]:\n                    # NOTE this is a task newly made computable", "overhead computed only for the event's host when a task becomes computable")
# ---- C04 ------------------------------------------------------------------------------------------------
m("c04-purge-on-first-consumer", "C04", NOTIFY, "    no_dependants = not state.purging_tracker.get(dataset, None)", "    no_dependants = len(state.purging_tracker.get(dataset, None) or ()) <= (1 if len(state.edge_o.get(dataset, ())) > 2 else 0)", "purge when one consumer is still outstanding (datasets with >2 consumers)")
m("c04-purge-before-delivery", "C04", NOTIFY, "    not_required_output = (\n        dataset not in state.outputs or dataset in state.outputs_delivered\n    )", "    not_required_output = True", "requested output purged before its value reached the caller")
m("c04-source-preparing", "C04", ASSIGN, "    eligible_transmit = {DatasetStatus.available}", "    eligible_transmit = {DatasetStatus.available, DatasetStatus.preparing}", "transfer source chosen among hosts that do not hold the dataset yet")
m("c04-fetch-twice", "C04", ACT, "        state.fetch_commanded.add(dataset)\n", "", "re-introduces the double fetch of replicated outputs")
# ---- C05 ------------------------------------------------------------------------------------------------
m("c05-swallow-taskfailure", "C05", EXEC, "                    elif isinstance(m, TaskFailure):\n                        self.to_controller(m)", "                    elif isinstance(m, TaskFailure):\n                        logger.error(f\"task failed: {m}\")", "TaskFailure logged, not forwarded")
m("c05-exit0-ok", "C05", EXEC, "        procFail = lambda ex: ex is not None\n", "        procFail = lambda ex: ex is not None and ex != 0\n", "exit code 0 of a child counts as healthy again")
m("c05-no-shm-shutdown", "C05", EXEC, "                shm_client.shutdown()\n                self.shm_process.join()", "                self.shm_process.join(0.1)", "shm server not shut down at terminate")
m("c05-dataserver-not-checked", "C05", EXEC, "        if procFail(self.data_server.exitcode):\n            raise ValueError(", "        if procFail(self.data_server.exitcode) and False:\n            raise ValueError(", "dead data server goes unnoticed")
# ---- C06 ------------------------------------------------------------------------------------------------
m("c06-deliver-duplicates", "C06", COMMS, "                if m0 in self.acked:", "                if m0 in self.acked and m0.idx % 7 == 0:", "duplicate suppression only for some indices")
m("c06-ack-pops-wrong", "C06", COMMS, "        if idx in self.inflight:\n            self.inflight.pop(idx)", "        if idx in self.inflight or idx + 1 in self.inflight:\n            self.inflight.pop(idx if idx in self.inflight else idx + 1)", "a repeated ack pops the next message")
m("c06-no-executor-retry", "C06", EXEC, "                self.sender.maybe_retry()\n", "", "re-introduces silent loss executor->controller")
m("c06-retry-budget-never-ends", "C06", COMMS, "                    self.inflight[idx].remaining -= 1\n", "", "retries without decrementing the budget: partition never reported")
m("c06-accept-trailing-frame", "C06", COMMS, "                if len(data) != 2:\n                    raise ValueError(f\"expected {len(data)=} to equal 2\")", "                if len(data) < 2:\n                    raise ValueError(f\"expected {len(data)=} to equal 2\")", "malformed [Syn, m, x] accepted")
# ---- C07 ------------------------------------------------------------------------------------------------
m("c07-conflict-announces", "C07", DS, "                        \"mode\": \"redundant\",\n                    }\n                )\n                return time_ns()", "                        \"mode\": \"redundant\",\n                    }\n                )\n                callback(self.maddress, DatasetPublished(ds=payload.header.ds, origin=self.host, transmit_idx=payload.header.confirm_idx))\n                return time_ns()", "redundant payload announced again")
m("c07-invalid-not-checked", "C07", DS, "                        if m.header.ds in self.invalid:", "                        if m.header.ds in self.invalid and False:", "payload after purge resurrects the dataset")
m("c07-fresh-syn-on-resend", "C07", DS, "            syn = Syn(command.idx, self.dlistener.address)", "            resent = self.__dict__.setdefault(\"_resent\", set())\n            syn = Syn(command.idx + (100000 if command.idx in resent else 0), self.dlistener.address)\n            resent.add(command.idx)", "a resend uses a new Syn: the receiver cannot recognise it as a duplicate")
m("c07-wrong-deser-fun", "C07", DS, "                deser_fun=buf.deser_fun,\n            )\n            payload = DatasetTransmitPayload(header, value=buf.view())", "                deser_fun=buf.deser_fun if buf.l > 1 else \"cloudpickle.loads\",\n            )\n            payload = DatasetTransmitPayload(header, value=buf.view())", "decoding function lost for tiny datasets")
# ---- C08 ------------------------------------------------------------------------------------------------
m("c08-credit-at-submission", "C08", SHMD, "        ds.status = DatasetStatus.paging_out\n\n        def callback(ok: bool) -> None:\n            if ok:\n                ds.status = DatasetStatus.on_disk\n                logger.debug(f\"pageout of {key} -> {ds} finished\")\n                with self.pageout_one:\n                    self.free_space += ds.size", "        ds.status = DatasetStatus.paging_out\n        self.free_space += ds.size\n\n        def callback(ok: bool) -> None:\n            if ok:\n                ds.status = DatasetStatus.on_disk\n                logger.debug(f\"pageout of {key} -> {ds} finished\")\n                with self.pageout_one:\n                    self.free_space += 0", "space credited when the page-out is submitted")
m("c08-no-reserve-pagein", "C08", SHMD, "        if self.free_space < ds.size:\n            raise ValueError(\"insufficient space\")\n        self.free_space -= ds.size", "        if self.free_space < ds.size:\n            raise ValueError(\"insufficient space\")", "page-in does not reserve")
m("c08-capacity-test-ge", "C08", SHMD, "        if size > self.free_space:\n            self.page_out_at_least(size - self.free_space)\n            return \"\", \"wait\"", "        if size > self.free_space + 1:\n            self.page_out_at_least(size - self.free_space)\n            return \"\", \"wait\"", "off by one: grants one byte beyond free space")
m("c08-purge-credits-twice", "C08", SHMD, "            if not is_exit:  # we dont want to lock at exit, we may hang out unhealthily\n                with self.pageout_one:\n                    self.free_space += ds.size", "            if not is_exit:  # we dont want to lock at exit, we may hang out unhealthily\n                with self.pageout_one:\n                    self.free_space += ds.size * (2 if ds.delayed_purge else 1)", "delayed purge credits twice")
m("c08-purge-during-pageout-again", "C08", SHMD, "                DatasetStatus.created,\n                DatasetStatus.paged_in,\n            ):\n                logger.warning(f\"calling purge in unsafe status: {key}, {ds.status}\")\n            elif ds.status in (DatasetStatus.on_disk, DatasetStatus.paging_out):", "                DatasetStatus.created,\n                DatasetStatus.paging_out,\n                DatasetStatus.paged_in,\n            ):\n                logger.warning(f\"calling purge in unsafe status: {key}, {ds.status}\")\n            elif ds.status == DatasetStatus.on_disk:", "re-introduces the purge of a dataset whose page-out is queued (stale job hits a re-allocated key)")
# ---- C09 ------------------------------------------------------------------------------------------------
m("c09-created-evictable", "C09", SHMD, "        return created_stale or (\n            self.status == DatasetStatus.in_memory and no_fresh_read\n        )", "        return created_stale or (\n            self.status in (DatasetStatus.in_memory, DatasetStatus.created) and no_fresh_read\n        )", "datasets still being written are evictable")
m("c09-ignore-readers", "C09", SHMD, "        no_fresh_read = (\n            not (self.ongoing_reads)\n            or ref_time - max(self.ongoing_reads.values()) > STALE_READ\n        )", "        no_fresh_read = (\n            len(self.ongoing_reads) < 2\n            or ref_time - max(self.ongoing_reads.values()) > STALE_READ\n        )", "a single reader does not protect")
m("c09-delayed-purge-early", "C09", SHMD, "        if self.datasets[key].delayed_purge and not self.datasets[key].ongoing_reads:\n            self.purge(key, False)", "        if self.datasets[key].delayed_purge:\n            self.datasets[key].ongoing_reads.clear()\n            self.purge(key, False)", "delayed purge executed at the first reader close")
m("c09-pageout-truncates", "C09", DISK, "                f.write(shm.buf[:])", "                f.write(shm.buf[: max(1, len(shm.buf) - (1 if len(shm.buf) > 8 else 0))])", "last byte lost on page-out of datasets > 8 B")
m("c09-lock-stuck-again", "C09", SHMD, "        if not winners:\n            # nothing to page out now -- no callback will release the lock for us\n            self.pageout_all.release()\n            return\n", "", "re-introduces the stuck eviction lock")
# ---- C10 ------------------------------------------------------------------------------------------------
m("c10-sink-ps-plus-one", "C10", INTO, "                        sink_input_ps=position,", "                        sink_input_ps=position + (1 if len(args) > 3 else 0),", "positional index shifted for long argument lists")
m("c10-static-left-in-place", "C10", INTO, "                static_input_ps[str(position)] = None\n", "", "the input's name stays as a static string (harmless: overwritten by the edge)")
m("c10-second-exhaustion-check", "C10", R, "        if not assert_iter_empty(resultI):\n            raise ValueError(\n                \"function produced more results than there were schema outputs\"\n            )", "        pass", "too many yielded values go unnoticed")
m("c10-one-fewer-again", "C10", R, "            try:\n                outputValue = next(resultI)\n            except StopIteration:\n                raise ValueError(\"schema declared more outputs than there were results\")", "            try:\n                outputValue = next(resultI)\n            except StopIteration:\n                break", "too few yielded values go unnoticed")
# ---- C11 ------------------------------------------------------------------------------------------------
m("c11-dedup-by-name", "C11", G + "deduplicate.py", "        if ai.name != bi.name or ai.parent is not bi.parent:", "        if ai.name != bi.name or ai.parent.payload != bi.parent.payload:", "parents compared by payload instead of identity")
m("c11-fuse-two-consumers", "C11", G + "fuse.py", "            if self.counter[isrc.parent] > 1:", "            if self.counter[isrc.parent] > 2:", "fusion offered for parents with two consumers")
m("c11-split-sink-in-dest", "C11", G + "split.py", "            self.sinks.setdefault(ik, []).append(sink)", "            self.sinks.setdefault(k, []).append(sink)", "cut sink appended to the destination part")
m("c11-cmp-ignores-outputs", "C11", G + "deduplicate.py", "    if a.outputs != b.outputs:\n        return False\n", "", "_cmp_nodes ignores output names")
m("c11-lstrip-again", "C11", G + "expand.py", "sname = s.name.removeprefix(f\"{self.name}.\")", "sname = s.name.lstrip(f\"{self.name}.\")", "re-introduces the lstrip defect")
# ---- C12 ------------------------------------------------------------------------------------------------
m("c12-drop-falsy-payload", "C12", G + "nodes.py", "        if self.payload is not None:", "        if self.payload:", "falsy payloads (0, '', False) dropped")
m("c12-sinks-only-zero-output", "C12", G + "export.py", "        if name not in consumed:\n            sinks.append(nodes[name])", "        if (sink := nodes[name]).is_sink():\n            sinks.append(sink)", "re-introduces the terminal-nodes defect")
m("c12-eq-skips-payload", "C12", G + "graph.py", "            if node.payload != onode.payload:\n                return False", "            pass", "Graph.__eq__ lenient on payloads (only matters with another defect)")
m("c12-multi-output-names-lost", "C12", G + "export.py", "    outputs = data.get(\"outputs\", [])", "    outputs = data.get(\"outputs\", [])\n    if len(outputs) > 2:\n        outputs = outputs[:2]", "more than two outputs truncated on read")
m("c11-fuse-count-not-inherited", "C11", G + "fuse.py", "        if any_fused:\n            self.counter[result] = self.counter[node]\n        else:", "        if not any_fused:", "a fused node forgets how many consumers it has: it is offered for fusion although two nodes read it")
m("c11-cut-name-ignores-destination", "C11", G + "split.py", "        h = pack(\"n\", hash(self)).hex()", "        h = pack(\"n\", hash((self.source_node, self.source_output))).hex()", "two cut edges leaving the same output share a name")
m("c11-dedup-keeps-duplicate-sinks", "C11", G + "deduplicate.py", "        new_sinks = set()\n        for sink in sinks:\n            ref = self.__find_node(sink)\n            assert ref is not None\n            new_sinks.add(ref)", "        new_sinks = []\n        for sink in sinks:\n            ref = self.__find_node(sink)\n            assert ref is not None\n            new_sinks.append(ref)", "duplicate sinks survive de-duplication")
m("c12-outputs-sorted-on-read", "C12", G + "export.py", "    outputs = data.get(\"outputs\", [])", "    outputs = sorted(data.get(\"outputs\", []))", "output lists come back sorted")
m("c12-cascade-file-dedups", "C12", "src/earthkit/workflows/__init__.py", "        data = serialise(self._graph)", "        data = serialise(deduplicate_nodes(self._graph))", "Cascade.serialise silently merges nodes with equal payload and inputs")
m("c14-hash-ignores-which-output", "C14", FLUENT, "            f'{payload}{[x.name if isinstance(x, BaseNode) else f\"{x.parent.name}.{x.name}\" for x in inputs]}'", "            f'{payload}{[x.name if isinstance(x, BaseNode) else f\"{x.parent.name}\" for x in inputs]}'", "two nodes reading different outputs of one generator node get the same name")
# ---- C13 ------------------------------------------------------------------------------------------------
m("c13-batched-mean-wrong-divisor", "C13", FLUENT, "        ).divide(self.nodes.sizes[dim])\n\n    def std(", "        ).divide(self.nodes.sizes[dim] if self.nodes.sizes[dim] % batch_size == 0 else -(-self.nodes.sizes[dim] // batch_size) * batch_size)\n\n    def std(", "batched mean divides by the padded count when the last batch is short")
m("c13-expand-index-plus-one", "C13", FLUENT, "            params = [(i, internal_dim, backend_kwargs) for i in range(dim_size)]", "            params = [(min(i + 1, dim_size - 1) if dim_size > 2 else i, internal_dim, backend_kwargs) for i in range(dim_size)]", "expand takes index+1")
m("c13-keepdim-wrong-axis", "C13", FLUENT, "                keep_axis,\n            )", "                0,\n            )", "kept dimension re-inserted at axis 0")
m("c13-join-outer", "C13", FLUENT, "            join=\"exact\",", "            join=\"outer\",", "join with outer alignment (NaN holes instead of an error)")
# ---- C14 ------------------------------------------------------------------------------------------------
m("c14-hash-without-inputs", "C14", FLUENT, "            f'{payload}{[x.name if isinstance(x, BaseNode) else f\"{x.parent.name}.{x.name}\" for x in inputs]}'", "            f'{payload}{len(inputs)}'", "node names do not depend on which inputs they consume")
m("c14-hash-without-kwargs", "C14", FLUENT, "        return f\"{self.name()}{self.args}{self.kwargs}\"", "        return f\"{self.name()}{self.args}\"", "node names ignore keyword arguments")
m("c14-join-mutates-again", "C14", FLUENT, "                    other_nodes = other_nodes.assign_coords(**{str(coord): values})", "                    other_action.nodes = other_nodes = other_nodes.assign_coords(**{str(coord): values})", "operand coordinates rewritten again")
m("c14-source-names-not-unique", "C14", FLUENT, "        if name in node_names:\n            name += str(it.multi_index)", "        if name in node_names and len(it.multi_index) > 1:\n            name += str(it.multi_index)", "1-D sources with repeated payload names share a name prefix (hash still differs)")
# ---- C15 ------------------------------------------------------------------------------------------------
m("c15-mean-batchable", "C15", BACK, "    def mean(*args, **kwargs):", "    @batchable\n    def mean(*args, **kwargs):", "mean marked batchable")
m("c15-axis-minus-one", "C15", BARR, "        kwargs[\"axis\"] = 0", "        kwargs[\"axis\"] = -1 if len(args) == 3 else 0", "three-argument reductions reduce the wrong axis")
m("c15-take-no-squeeze", "C15", BARR, "        return xp.squeeze(ret, axis=dim)", "        return ret if dim == 2 else xp.squeeze(ret, axis=dim)", "integer take on axis 2 keeps the axis")
m("c15-subtract-swapped", "C15", BXR, "        return XArrayBackend.two_arg_function(\n            \"subtract\", *arrays, keep_attrs=keep_attrs, **method_kwargs\n        )", "        return XArrayBackend.two_arg_function(\n            \"subtract\", *arrays[::-1], keep_attrs=keep_attrs, **method_kwargs\n        )", "xarray subtract with swapped operands")
m("c15-xr-stack-ignores-axis", "C15", BXR, "        if axis != dim_index:", "        if axis != dim_index and axis < 2:", "xarray stack ignores axis >= 2")
# ---- C16 ------------------------------------------------------------------------------------------------
m("c16-sources-truncated", "C16", SGRAPH, "            [e for e in component if e in sources],", "            [e for e in component if e in sources][:3],", "at most three sources listed per component")
m("c16-value-minus-two", "C16", SGRAPH, "                value[v] = max(value[v], value[c] - 1)", "                value[v] = max(value[v], value[c] - (2 if len(edge_o[v]) > 2 else 1))", "value decreases by 2 below wide nodes")
m("c16-min-max-swapped", "C16", SGRAPH, "                    ncd[a][b] = min(ncd[a][b], max(paths[a][c], paths[b][c]))", "                    ncd[a][b] = min(ncd[a][b], min(paths[a][c], paths[b][c]) if paths[a][c] < L and paths[b][c] < L else L)", "distance uses min instead of max")
m("c16-sort-ascending", "C16", SGRAPH, "    components.sort(key=lambda c: c.weight(), reverse=True)", "    components.sort(key=lambda c: c.weight(), reverse=len(components) < 3)", "three or more components sorted ascending")
# ---- C17 ------------------------------------------------------------------------------------------------
m("c17-short-string-length", "C17", SHMA, "    return len(s).to_bytes(4, \"big\") + s.encode(\"ascii\")", "    return (len(s) & 0xFF).to_bytes(4, \"big\") + s.encode(\"ascii\")", "string length truncated to one byte")
m("c17-swap-shmid-rdid", "C17", SHMA, "        return cls(l=l, shmid=shmid, rdid=rdid, error=error, deser_fun=deser_fun)", "        return cls(l=l, shmid=rdid if error else shmid, rdid=shmid if error else rdid, error=error, deser_fun=deser_fun)", "shmid/rdid swapped on decode of error responses")
m("c17-mask-free-space", "C17", SHMA, "        return self.free_space.to_bytes(8, \"big\")", "        return (self.free_space & 0xFFFFFFFF).to_bytes(8, \"big\")", "free space silently truncated to 32 bits")
m("c17-response-class-mismatch", "C17", "src/cascade/gateway/client.py", "        if d[\"clazz\"][: -len(\"Request\")] != rdc[: -len(\"Response\")]:\n            raise ValueError(\"mismatch between sent and received classes\")", "        pass", "client accepts a response of another class")
# ---- C18 ------------------------------------------------------------------------------------------------
m("c18-results-by-task-only", "C18", ROUTER, "        self.jobs[job_id].results[dataset_id] = result", "        self.jobs[job_id].results[DatasetId(dataset_id.task, \"0\")] = result", "results stored under the task only")
m("c18-shutdown-sets-progress", "C18", ROUTER, "        if progress == JobProgressShutdown:\n            self.poller.unregister(job.socket)\n            return", "        if progress == JobProgressShutdown:\n            self.poller.unregister(job.socket)\n            job.progress = progress\n            return", "shutdown notice erases the progress")
m("c18-uuid-no-membership", "C18", ROUTER, "        job_id = next_uuid(self.jobs.keys(), lambda: str(uuid.uuid4()))", "        job_id = str(uuid.uuid4())", "job ids can be reused")
m("c18-last-seen-ge", "C18", ROUTER, "            job.last_seen = timestamp\n", "            job.last_seen = min(timestamp, job.last_seen) if job.last_seen > 0 else timestamp\n", "last_seen keeps the oldest timestamp")
m("c18-results-shared", "C18", ROUTER, "        self.jobs[job_id] = Job(socket, JobProgressStarted, -1, {})", "        self.jobs[job_id] = Job(socket, JobProgressStarted, -1, self.jobs[next(iter(self.jobs))].results if self.jobs else {})", "all jobs share one results dict")
# ---- C19 ------------------------------------------------------------------------------------------------
m("c19-accept-missing-output", "C19", BUILD, "                if not output_param:\n                    yield f\"edge pointing from non-existent param {edge.source.output}\"", "                if not output_param and edge.sink_input_kw is not None:\n                    yield f\"edge pointing from non-existent param {edge.source.output}\"", "positional edges from non-existent outputs accepted")
m("c19-old-values-win", "C19", BUILD, "        new_kwargs = {**self.static_input_kw, **kwargs}", "        new_kwargs = {**kwargs, **self.static_input_kw}", "earlier keyword values win over new ones")
m("c19-with-node-mutates", "C19", BUILD, "        return replace(self, nodes=self.nodes.set(name, task))", "        self.nodes = self.nodes.set(name, task)\n        return self", "with_node mutates the builder in place")
m("c19-no-source-task-test", "C19", BUILD, "            if not source_task:\n                yield f\"edge pointing from non-existent task {edge.source}\"", "            if not source_task:\n                pass", "dangling source task accepted")


# Mutants that turned out not to break the property (kept for the record; the runner annotates them):
EQUIVALENT = {
    "c05-healthcheck-after-shutdown": "the spurious ExecutorFailure is sent after the run has returned and the controller has asked for the shutdown: no property speaks about it (observed in executor logs only)",
    "c01-fetch-second-host-ignored": "a filter on transfer-completion events of outputs named '1': the fetch was already queued by the worker's own notice -- no observable change",
    "c04-source-preparing": "ds2host keeps insertion order and the producer's host is always first and available once a consumer is computable, so the wider eligibility set never selects another host",
    "c10-static-left-in-place": "the upstream value overwrites the static string in runner.run -- no observable change",
    "c13-join-outer": "for inputs inside the domain (equal coordinates on the other dimensions) outer and exact alignment coincide; outside it both versions raise",
    "c14-source-names-not-unique": "the hash part of the name still separates sources with different payload arguments; identical payloads are the same computation",
    "c05-dataserver-not-checked": "a dead data server is still reported within the bounded retry budget of the acknowledged layer (fetch / transmit commands to it are retried 20 x 0.8 s, then the controller raises): the run ends, later",
}
