"""C12 -- serialising a graph and reading it back gives an equal graph (engine E5 generators + fluent graphs)."""

from __future__ import annotations

import math
import os
import tempfile

from vlib.common.core import Collector, case_rng, digest, guarded
from vlib.graphterm import Malformed, build_graph, gen_spec, graph_to_spec, spec_as_dict, spec_shape, terminal_names

ID = "C12"
LEVEL = "exploration"
MANIFEST = dict(
    engine="E5-graphterm", engine_path="vlib/graphterm.py",
    kind="generated DAG specs and fluent programs -> real serialise/deserialise, to_json/from_json, Cascade file format -> independent structural comparison",
    technique="runtime round-trip monitor: the real serialise/deserialise, to_json/from_json and Cascade.serialise/from_serialised run on generated graphs (incl. fluent programs; for the Cascade file also after the object was written once, changed in place and written again); the result is read back node by node by an independent walker and compared in both directions with the harness's own spec, in addition to the repository's Graph.__eq__",
    text="For each generated graph (unique names; terminal nodes with zero, default or several outputs; multi-output nodes; empty and one-node graphs; fluent programs) and each of the three formats the graph read back must have exactly the nodes, outputs, inputs and payloads of the original; a graph that comes back empty or truncated is a violation even where Graph.__eq__ is lenient.",
    note="JSON format is checked on payloads JSON represents faithfully (None, bool, int, finite float, str, lists, str-keyed dicts); callables in the Cascade format are compared by reference (importable) or by code object (lambdas).",
)
RULE = (
    "case = one generated DAG with unique names (0-25 nodes; names incl. '.', ':', '+', space, unicode; terminal nodes with [] / default / several "
    "outputs; falsy payloads) or one fluent program (from_source + map/reduce/arithmetic/expand compositions) x one format (dict, json, cascade-file); "
    "non-trivial = >=3 nodes and >=2 edges; distinct = digest(format, graph shape)"
)
ASSUMPTIONS = ["node names are unique (the property's domain)", "dill and json themselves are trusted"]
REQUIRED_COUNTERS = ["roundtrips_dict", "roundtrips_json", "roundtrips_cascade", "fluent_graphs", "terminal_with_outputs_graphs"]


def _f_plain(x=None, *a, **k):
    return x


def _g_plain(x=None, *a, **k):
    return (x, a)


def norm_payload(p):
    """Payload normal form for comparison across pickling (callables by reference or by code)."""
    if isinstance(p, (list, tuple)):
        return (type(p).__name__,) + tuple(norm_payload(x) for x in p)
    if isinstance(p, dict):
        return ("dict",) + tuple(sorted((repr(k), norm_payload(v)) for k, v in p.items()))
    if callable(p):
        code = getattr(p, "__code__", None)
        mod = getattr(p, "__module__", None)
        qn = getattr(p, "__qualname__", None)
        if code is not None and "<lambda>" in (qn or ""):
            return ("lambda", code.co_code, repr(code.co_consts))
        return ("callable", mod, qn)
    if isinstance(p, float) and p != p:
        return "nan"
    try:
        import numpy as np
        if isinstance(p, np.ndarray):
            return ("ndarray", p.shape, p.tobytes())
    except Exception:  # noqa: BLE001
        pass
    return (type(p).__name__, repr(p))


def norm_spec(d: dict) -> dict:
    return {name: (tuple(n["outputs"]), tuple(sorted((i, tuple(v)) for i, v in n["inputs"].items())), norm_payload(n["payload"]))
            for name, n in d.items()}


FALSY = [0, "", False, 0.0]


def gen_fluent_graph(rng):
    """Small fluent programs (every fluent graph has terminal nodes *with* outputs)."""
    import numpy as np
    from earthkit.workflows import fluent
    shape = rng.choice([(2,), (3,), (2, 2), (2, 3)])
    dims = ["x", "y"][: len(shape)]
    payloads = np.empty(shape, dtype=object)
    for idx in np.ndindex(*shape):
        payloads[idx] = fluent.Payload(_f_plain, [int(sum(idx))], {"k": idx[0]})
    a = fluent.from_source(payloads, dims=dims)
    ops = []
    for _ in range(rng.randint(1, 3)):
        op = rng.choice(["map", "sum", "add", "mean", "expand", "mul_action", "gen"])
        ops.append(op)
        if op == "map":
            a = a.map(fluent.Payload(_g_plain, kwargs={"c": rng.randint(0, 3)}))
        elif op == "sum" and a.nodes.ndim >= 1 and a.nodes.sizes[a.nodes.dims[0]] > 1:
            a = a.sum(a.nodes.dims[0], batch_size=rng.choice([0, 2]))
        elif op == "mean" and a.nodes.ndim >= 1 and a.nodes.sizes[a.nodes.dims[-1]] > 1:
            a = a.mean(a.nodes.dims[-1])
        elif op == "add":
            a = a.add(rng.choice([1, 2.5]))
        elif op == "mul_action" and a.nodes.ndim >= 1:
            a = a.multiply(a.map(_f_plain))
        elif op == "expand":
            a = a.expand("e", 0, dim_size=2)
        elif op == "gen":
            a = a.map(fluent.Payload(_g_plain), yields=("g", [0, 1, 2]))
            break
    return a.graph(), tuple(ops)


def compare(col: Collector, fmt: str, expected: dict, orig_graph, back, index: int, wit: dict, terminal_with_outputs: bool):
    from earthkit.workflows.graph import Graph
    pred = "terminal-nodes-with-outputs" if terminal_with_outputs else "plain"
    if not isinstance(back, Graph):
        col.violation(f"{fmt}:not-a-graph", repr(type(back)), wit, index)
        return
    try:
        got = graph_to_spec(back)
    except Malformed as e:
        col.violation(f"{fmt}:malformed:{pred}", str(e), wit, index)
        return
    ne, ng = norm_spec(expected), norm_spec(got)
    if len(ng) != len(ne):
        missing = sorted(set(ne) - set(ng))
        col.violation(f"{fmt}:nodes-lost:{pred}" if len(ng) < len(ne) else f"{fmt}:nodes-added:{pred}",
                      f"{len(ne)} nodes written, {len(ng)} read back; missing {missing[:6]}", wit, index)
        return
    if ne != ng:
        diff = [k for k in ne if ne.get(k) != ng.get(k)]
        col.violation(f"{fmt}:nodes-differ:{pred}", f"nodes differ after round trip: {diff[:5]}: {ne.get(diff[0])!r:.200} vs {ng.get(diff[0])!r:.200}", wit, index)
        return
    if fmt != "cascade" or not wit.get("has_lambda"):
        try:
            eq1, eq2 = (orig_graph == back), (back == orig_graph)
        except Exception as e:  # noqa: BLE001
            col.violation(f"{fmt}:eq-raises", repr(e), wit, index)
            return
        col.count("graph_eq_checked")
        if not (eq1 and eq2):
            col.violation(f"{fmt}:graph-eq-false-on-identical-structure", "independent comparison finds the graphs identical but Graph.__eq__ is False", wit, index)


def one_case(col: Collector, rng, index: int, max_nodes: int):
    from earthkit.workflows import Cascade
    from earthkit.workflows.graph import deserialise, from_json, serialise, to_json
    fmt = rng.choice(["dict", "dict", "json", "json", "cascade"])
    fluent_case = rng.random() < 0.2
    has_lambda = False
    built = None
    if fluent_case and fmt != "json":
        try:
            built = gen_fluent_graph(rng)
        except Exception:  # noqa: BLE001 -- building the program is C13's business, not this property's
            col.observe("fluent_program_did_not_build")
    if built is not None:
        g, ops = built
        expected = graph_to_spec(g)
        shape = ("fluent", ops, len(expected))
        wit = {"fluent_ops": list(ops), "nodes": len(expected)}
        col.count("fluent_graphs")
        n_nodes = len(expected)
        n_edges = sum(len(v["inputs"]) for v in expected.values())
        two = True
    else:
        spec = gen_spec(rng, max_nodes=max_nodes, names=rng.choice(["collide", "plain"]), hostile_outputs=rng.random() < 0.2,
                        json_safe=(fmt == "json"), zero_output_sinks=rng.choice([0.0, 0.5, 1.0]), dup_payloads=0.3)
        for n in spec:
            r = rng.random()
            if r < 0.08:
                n["payload"] = rng.choice(FALSY) if fmt != "json" else rng.choice(FALSY + [[], {}])
            elif fmt == "cascade" and r < 0.4:
                kind = rng.choice(["ref", "ref2", "lambda", "math"])
                if kind == "lambda":
                    c = rng.randint(0, 5)
                    n["payload"] = (lambda x, c=c: x + c, ["input0"], {"k": c})  # noqa: E731
                    has_lambda = True
                else:
                    n["payload"] = ({"ref": _f_plain, "ref2": _g_plain, "math": math.sqrt}[kind], [rng.randint(0, 9)], {})
        g, _nodes = build_graph(spec)
        expected = spec_as_dict(spec)
        shape = ("spec", spec_shape(spec))
        wit = {"spec": [{"name": n["name"], "outputs": n["outputs"], "payload": repr(n["payload"])[:80], "inputs": {k: list(v) for k, v in n["inputs"].items()}} for n in spec[:14]]}
        n_nodes, n_edges = len(spec), sum(len(n["inputs"]) for n in spec)
        two = any(n["outputs"] for n in spec if n["name"] in terminal_names(spec))
    wit["format"] = fmt
    wit["has_lambda"] = has_lambda
    if two:
        col.count("terminal_with_outputs_graphs")
    col.case(shape=digest(fmt, shape), nontrivial=n_nodes >= 3 and n_edges >= 2, sample=wit)
    try:
        if fmt == "dict":
            back = deserialise(serialise(g))
        elif fmt == "json":
            back = from_json(to_json(g))
        else:
            fd, path = tempfile.mkstemp(prefix="v12", suffix=".dill")
            os.close(fd)
            try:
                if rng.random() < 0.3:
                    # history on one Cascade object: written once while still empty, extended in place, written again -- the second
                    # file must hold the graph as it is now
                    from earthkit.workflows.graph import Graph
                    c = Cascade(Graph([]))
                    c.serialise(path)
                    c._graph = g          # (`+=` would also de-duplicate equal computations: that is C11's business, not a loss)
                    c.serialise(path)
                    col.count("cascade_written_again_after_in_place_extension")
                else:
                    Cascade(g).serialise(path)
                back = Cascade.from_serialised(path)._graph
            finally:
                os.unlink(path)
    except Exception as e:  # noqa: BLE001
        col.violation(f"{fmt}:raises-{type(e).__name__}", f"{e!r:.300}", wit, index)
        return
    col.count(f"roundtrips_{fmt}")
    compare(col, fmt, expected, g, back, index, wit, two)


def run_shard(spec, col: Collector):
    seed, shard = spec["seed"], spec["shard"]
    for i in range(spec["n"]):
        if col.out_of_time():
            break
        if col.want(i):
            guarded(col, i, one_case, col, case_rng(seed, shard, i), i, spec["max_nodes"])


def plan(tier, seed, scale=1.0):
    q = tier == "quick"
    n, copies, mx = (600, 8, 25) if q else (90000, 16, 40)
    return [dict(shard=f"s{c}", n=int(n * scale), max_nodes=mx, budget_s=50 if q else 800, timeout_s=150 if q else 1300,
                 hash_seed=(seed * 19 + c) % 4294967295) for c in range(copies)]
