"""E4 second tier: the real UDP shm server process (real Disk thread pools) under 2-8 real client processes using cascade.shm.client.

Monitors: (C09) every granted read is self-consistent with the header its writer put into the bytes (key, generation, length)
and carries that writer's deser_fun; a key is never readable before its writer closed; (C08) the bytes of /dev/shm/<prefix>*
segments never exceed the capacity (sampled continuously), and at barriers where all clients are idle and the numbers are
stable the reported free space equals capacity minus the bytes of the segments that really exist.

Keys are allocated at most once per scenario (re-allocating a key purged while its page-out is queued is the known finding of
the in-process tier; this tier is about real threads and the wire, not about that history).

Run as: python -m vlib.shmstress <spec.json>  (prints one RESULT line; own session)
"""

from __future__ import annotations

import glob
import hashlib
import json
import os
import random
import struct
import sys
import time
import traceback

HDR = struct.Struct(">16sQI")  # key digest, generation, length


def pattern(key: str, gen: int, l: int) -> bytes:
    kd = hashlib.md5(key.encode()).digest()
    body = bytearray(l)
    if l >= HDR.size:
        body[: HDR.size] = HDR.pack(kd, gen, l)
        seed = hashlib.blake2b(kd + struct.pack(">Q", gen), digest_size=32).digest()
        for i in range(HDR.size, l):
            body[i] = seed[i % 32] ^ (i & 0xFF)
    else:
        seed = hashlib.blake2b(kd, digest_size=32).digest()
        for i in range(l):
            body[i] = seed[i % 32]
    return bytes(body)


def check_pattern(key: str, data: bytes) -> str | None:
    l = len(data)
    if l >= HDR.size:
        kd, gen, ll = HDR.unpack(data[: HDR.size])
        if kd != hashlib.md5(key.encode()).digest():
            return f"bytes under {key} carry another key's header"
        if ll != l:
            return f"length {l} differs from the length {ll} its writer recorded"
        if data != pattern(key, gen, l):
            return "body does not match the writer's pattern (torn or corrupted)"
        return None
    return None if data == pattern(key, 0, l) else "short dataset corrupted"


def client_main(cid, spec, go, pause, idle_counter, out_path):
    import logging
    logging.disable(logging.CRITICAL)
    import cascade.shm.api as api
    import cascade.shm.client as client
    api.publish_client_port(spec["port"])
    rng = random.Random(f"{spec['seed']}/c{cid}")
    stats = {"allocated": 0, "reads": 0, "reads_checked": 0, "purges": 0, "waits": 0, "conflicts": 0, "unknown": 0, "errors": 0}
    viol = []
    mine = 0
    keys = spec["keys"]
    go.wait()
    for step in range(spec["ops"]):
        if pause.is_set():
            with idle_counter.get_lock():
                idle_counter.value += 1
            while pause.is_set():
                time.sleep(0.005)
            with idle_counter.get_lock():
                idle_counter.value -= 1
        r = rng.random()
        try:
            if r < 0.35:
                key = f"c{cid}k{mine}"      # every key is allocated at most once
                mine += 1
                l = rng.choice(spec["sizes"])
                try:
                    buf = client.allocate(key, l, f"df-{key}", timeout_sec=rng.choice([0.05, 0.3]))
                except TimeoutError:
                    stats["waits"] += 1
                    continue
                except client.ConflictError:
                    stats["conflicts"] += 1
                    continue
                data = pattern(key, step + 1, l)
                half = l // 2
                buf.view()[:half] = data[:half]
                if rng.random() < 0.3:
                    time.sleep(0.002)
                buf.view()[half:l] = data[half:]
                buf.close()
                stats["allocated"] += 1
                keys_file = os.path.join(spec["tmp"], f"keys-{cid}.txt")
                with open(keys_file, "a") as f:
                    f.write(key + "\n")
            elif r < 0.8:
                pool = []
                for f in glob.glob(os.path.join(spec["tmp"], "keys-*.txt")):
                    try:
                        pool.extend(open(f).read().split())
                    except OSError:
                        pass
                if not pool:
                    continue
                key = rng.choice(pool[-40:] if rng.random() < 0.7 else pool)
                try:
                    buf = client.get(key, timeout_sec=rng.choice([0.05, 0.3]))
                except TimeoutError:
                    stats["waits"] += 1
                    continue
                except ValueError:
                    stats["unknown"] += 1      # purged meanwhile
                    continue
                stats["reads"] += 1
                data = bytes(buf.view())
                df = buf.deser_fun
                if rng.random() < 0.3:
                    time.sleep(0.002)
                again = bytes(buf.view())
                buf.close()
                stats["reads_checked"] += 1
                bad = check_pattern(key, data)
                if bad:
                    viol.append(["C09", "read-bytes-differ-from-written", f"client {cid}: get({key}) -> {bad}"])
                elif df != f"df-{key}":
                    viol.append(["C09", "read-deser-fun-differs", f"client {cid}: get({key}) deser_fun {df!r}"])
                elif again != data:
                    viol.append(["C09", "bytes-changed-while-reading", f"client {cid}: {key} changed while a reader held it"])
            elif r < 0.9:
                pool = []
                try:
                    pool = open(os.path.join(spec["tmp"], f"keys-{cid}.txt")).read().split()
                except OSError:
                    pass
                if pool:
                    client.purge(rng.choice(pool))
                    stats["purges"] += 1
            else:
                client.get_free_space()
        except Exception as e:  # noqa: BLE001
            stats["errors"] += 1
            if stats["errors"] < 3:
                viol.append(["H", "client-exception", f"client {cid}: {e!r:.200}"])
    with open(out_path, "w") as f:
        json.dump({"stats": stats, "violations": viol}, f)


def seg_bytes(prefix):
    tot = 0
    for p in glob.glob(f"/dev/shm/{prefix}*"):
        try:
            tot += os.stat(p).st_size
        except OSError:
            pass
    return tot


def run(spec):
    import logging
    logging.disable(logging.CRITICAL)
    from multiprocessing import Event, Value, get_context
    import cascade.shm.api as api
    import cascade.shm.client as client
    import cascade.shm.server as server
    os.makedirs(spec["tmp"], exist_ok=True)
    prefix = spec["prefix"]
    for s in glob.glob(f"/dev/shm/{prefix}*"):
        os.unlink(s)
    ctx = get_context("fork")
    srv = ctx.Process(target=server.entrypoint, kwargs=dict(port=spec["port"], capacity=spec["capacity"], shm_pref=prefix))
    srv.start()
    api.publish_client_port(spec["port"])
    client.ensure()
    go, pause = ctx.Event(), ctx.Event()
    idle = ctx.Value("i", 0)
    procs = []
    for cid in range(spec["clients"]):
        p = ctx.Process(target=client_main, args=(cid, spec, go, pause, idle, os.path.join(spec["tmp"], f"out-{cid}.json")))
        p.start()
        procs.append(p)
    res = {"violations": [], "stats": {"samples": 0, "max_segment_bytes": 0, "barriers": 0, "barrier_equalities": 0, "barriers_unstable": 0}}
    V = res["violations"]
    go.set()
    t0 = time.time()
    next_barrier = t0 + 0.4
    cap = spec["capacity"]
    while any(p.is_alive() for p in procs) and time.time() - t0 < spec.get("max_s", 60):
        b = seg_bytes(prefix)
        res["stats"]["samples"] += 1
        res["stats"]["max_segment_bytes"] = max(res["stats"]["max_segment_bytes"], b)
        if b > cap:
            V.append(["C08", "segments-exceed-capacity", f"/dev/shm segments total {b} bytes > capacity {cap}"])
            break
        if not srv.is_alive():
            V.append(["H", "shm-server-died", f"exit code {srv.exitcode}"])
            break
        if time.time() >= next_barrier:
            pause.set()
            alive = sum(1 for p in procs if p.is_alive())
            tb = time.time()
            while idle.value < sum(1 for p in procs if p.is_alive()) and time.time() - tb < 10:
                time.sleep(0.005)
            if idle.value < sum(1 for p in procs if p.is_alive()):
                # some client is still inside an operation (starved machine): the equality below is only meaningful when nobody
                # holds a grant whose segment does not exist yet -- skip this barrier
                res["stats"]["barriers_skipped_clients_busy"] = res["stats"].get("barriers_skipped_clients_busy", 0) + 1
                pause.clear()
                next_barrier = time.time() + 0.4
                continue
            res["stats"]["barriers"] += 1
            # all clients idle: wait until the disk threads are idle too (numbers stable over two samples), then compare
            prev = None
            for _ in range(30):
                cur = (seg_bytes(prefix), client.get_free_space())
                if cur == prev:
                    break
                prev = cur
                time.sleep(0.05)
            else:
                prev = None
            if prev is None:
                res["stats"]["barriers_unstable"] += 1
            else:
                res["stats"]["barrier_equalities"] += 1
                segs, free = prev
                if not (0 <= free <= cap):
                    V.append(["C08", "free-space-out-of-range", f"free space {free} not in [0, {cap}]"])
                elif free != cap - segs:
                    # a disk thread of the server may be in the middle of a page-in / page-out (space moved, segment not yet): with
                    # every client still paused, only a difference that is still there -- unchanged -- after 5 s is a finding
                    t_m = time.time()
                    cur = prev
                    while time.time() - t_m < 5 and cur[1] != cap - cur[0]:
                        time.sleep(0.25)
                        cur = (seg_bytes(prefix), client.get_free_space())
                    if cur[1] != cap - cur[0]:
                        V.append(["C08", "free-space-differs-from-capacity-minus-segments", f"all clients idle for 5 s: free {cur[1]} != capacity {cap} - segment bytes {cur[0]}"])
                    else:
                        res["stats"]["barrier_transient_mismatches"] = res["stats"].get("barrier_transient_mismatches", 0) + 1
            pause.clear()
            next_barrier = time.time() + 0.4
            if V:
                break
        time.sleep(0.01)
    pause.clear()
    for p in procs:
        p.join(5)
        if p.is_alive():
            p.kill()
    tot = {}
    for cid in range(spec["clients"]):
        try:
            d = json.load(open(os.path.join(spec["tmp"], f"out-{cid}.json")))
        except Exception:  # noqa: BLE001
            continue
        for k, v in d["stats"].items():
            tot[k] = tot.get(k, 0) + v
        V.extend(d["violations"])
    res["stats"].update(tot)
    try:
        client.shutdown()
    except Exception:  # noqa: BLE001
        pass
    srv.join(3)
    if srv.is_alive():
        srv.kill()
    res["outcome"] = "ok"
    return res


def main():
    spec = json.load(open(sys.argv[1]))
    try:
        res = run(spec)
    except Exception:  # noqa: BLE001
        res = {"outcome": "harness-error", "error": traceback.format_exc()[-1500:]}
    sys.stdout.write("RESULT " + json.dumps(res) + "\n")
    sys.stdout.flush()
    import psutil
    import shutil
    try:
        for p in psutil.Process(os.getpid()).children(recursive=True):
            try:
                p.kill()
            except Exception:  # noqa: BLE001
                pass
    finally:
        for s in glob.glob(f"/dev/shm/{spec['prefix']}*"):
            try:
                os.unlink(s)
            except OSError:
                pass
        shutil.rmtree(spec["tmp"], ignore_errors=True)
    os._exit(0)


if __name__ == "__main__":
    main()
