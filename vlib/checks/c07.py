"""C07 -- a transfer stores the dataset once, byte-identical, and announces it once (engine E2 components: real data servers + shm)."""

from __future__ import annotations

import json
import os
import signal
import subprocess
import tempfile

from vlib.common.core import Collector, case_rng, digest, guarded

ID = "C07"
LEVEL = "fault_enumeration"
MANIFEST = dict(
    engine="E2-dataservers", engine_path="vlib/dataservers.py",
    kind="per host a real shm server process and the real DataServer.recv_loop; the harness plays controller and executor (owns the message listeners, pre-loads and reads back the shm stores, sends transmit / fetch / purge commands); payload frames and confirmations are dropped / duplicated / delayed by wrappers around send_data and the Ack callback",
    technique="fault-injection on the real data servers with an end-state oracle: for generated command sets on 2-3 hosts under seeded loss / duplication / delay of payload and confirmation frames, at logical quiescence (every expected notice / payload seen and every purge returned from the shm server in the data server's own event trace; never a wall-clock verdict: the harness waits while the servers' logs still grow, calls a transfer lost only after 15 confirmation graces of silence, and excludes a scenario whose servers are still busy at the cap) every (dataset, target) holds exactly the source's bytes and decoding function, the number of arrival announcements the target's data server makes (its calls of callback(maddress, DatasetPublished), cross-checked with what arrives) is exactly one (zero if the target already held the dataset), every fetch delivered exactly one equal payload, a payload after the target's purge does not resurrect the dataset, no transmit failure was reported and no data server exited",
    text="Held = all end-state clauses true in every scenario explored (faults counted in the evidence: payloads/confirmations dropped, duplicated, delayed).",
    note="the data server clock runs 40x fast and its listener poll is clamped (a compressed confirmation grace can only cause extra re-transmissions, never a spurious failure); the controller-side precondition of C04 is respected by the workload (no transmit for a dataset already purged at its source; a source is purged only after the transfer was accepted and only in plans without payload loss).",
)
RULE = (
    "case = one command set on 2-3 hosts: 1-6 transfers/fetches of 1-4 datasets (1 B .. 1 MiB, distinct deser_fun strings) incl. two transfers of the same dataset to one target, a transfer of "
    "something the target already holds, purges at the target at every relative position to the payload, purges at the source after acceptance; fault plan = per-frame drop/dup/delay probabilities; "
    "non-trivial = >=1 fault applied or >=2 commands; distinct = digest(command kinds, plan class)"
)
ASSUMPTIONS = ["localhost tcp; finite loss (at most 3 consecutive drops per payload / confirmation)"]
REQUIRED_COUNTERS = ["scenarios_judged", "scenarios", "transfers", "fetches", "purges", "announcements", "payload-dropped", "confirmation-dropped", "payload-duplicated"]


def gen_scenario(rng, shard_no, slot, index):
    nh = rng.choice([2, 2, 3])
    from vlib.common import ports
    block, base = ports.acquire()
    hid = f"d{block:03x}"
    hosts = [{"id": f"{hid}{h}", "index": h, "maddress": f"tcp://localhost:{base + 1 + h * 10}", "daddress": f"tcp://localhost:{base + 2 + h * 10}", "shm_port": base + 3 + h * 10} for h in range(nh)]
    ids = [h["id"] for h in hosts]
    plan_class = rng.choice(["none", "loss", "loss", "dup", "delay", "mixed", "mixed"])
    plan = {"p_drop_payload": 0.0, "p_dup_payload": 0.0, "p_delay": 0.0, "p_drop_ack": 0.0, "p_dup_ack": 0.0}
    if plan_class in ("loss", "mixed"):
        plan["p_drop_payload"] = rng.choice([0.2, 0.4])
        plan["p_drop_ack"] = rng.choice([0.2, 0.4])
    if plan_class in ("dup", "mixed"):
        plan["p_dup_payload"] = 0.3
        plan["p_dup_ack"] = 0.3
    if plan_class in ("delay", "mixed"):
        plan["p_delay"] = 0.4
    nds = rng.randint(1, 4)
    datasets = []
    for i in range(nds):
        src = rng.choice(ids)
        datasets.append({"task": f"t{i}", "size": rng.choice([1, 7, 100, 4096, 65537, 1 << 20]), "deser_fun": f"mod{i}.des_{rng.randrange(99)}", "preload": [src]})
    commands = []
    kinds = []
    purged = set()
    for _ in range(rng.randint(1, 6)):
        d = rng.choice(datasets)
        src = d["preload"][0]
        if (d["task"], src) in purged:
            continue
        k = rng.choice(["transmit", "transmit", "transmit", "fetch", "transmit_twice", "transmit_to_holder", "transmit_then_target_purge", "target_purge_then_payload", "source_purge_after_accept", "source_purge_races_queued_sends"])
        others = [h for h in ids if h != src]
        dst = rng.choice(others)
        if k == "transmit":
            commands.append({"op": "transmit", "ds": d["task"], "src": src, "dst": dst, "wait": rng.choice([0, 0.02, 0.2])})
        elif k == "fetch":
            commands.append({"op": "fetch", "ds": d["task"], "src": src, "wait": rng.choice([0, 0.05])})
        elif k == "transmit_twice":
            commands.append({"op": "transmit", "ds": d["task"], "src": src, "dst": dst, "wait": rng.choice([0, 0.05, 0.3])})
            commands.append({"op": "transmit", "ds": d["task"], "src": src, "dst": dst, "wait": 0.05})
        elif k == "transmit_to_holder":
            if dst not in d["preload"] and not any(c["op"] == "transmit" and c["ds"] == d["task"] and c["dst"] == dst for c in commands):
                d["preload"].append(dst)
            commands.append({"op": "transmit", "ds": d["task"], "src": src, "dst": dst, "wait": 0.05})
        elif k == "transmit_then_target_purge":
            if dst in d["preload"]:
                continue
            commands.append({"op": "transmit", "ds": d["task"], "src": src, "dst": dst, "wait": rng.choice([0.3, 0.6])})
            commands.append({"op": "purge", "ds": d["task"], "host": dst, "wait": 0.1})
            purged.add((d["task"], dst))
        elif k == "target_purge_then_payload":
            if dst in d["preload"] or any(c["ds"] == d["task"] and c.get("dst") == dst for c in commands):
                continue
            commands.append({"op": "purge", "ds": d["task"], "host": dst, "wait": 0.05})
            commands.append({"op": "transmit", "ds": d["task"], "src": src, "dst": dst, "wait": 0.2, "after_target_purge": True})
            purged.add((d["task"], dst))
        elif k == "source_purge_after_accept":
            if plan["p_drop_payload"] > 0 or len(d["preload"]) > 1:
                continue
            commands.append({"op": "transmit", "ds": d["task"], "src": src, "dst": dst, "wait": 0.15})
            commands.append({"op": "purge", "ds": d["task"], "host": src, "wait": 0.1})
            purged.add((d["task"], src))
        elif k == "source_purge_races_queued_sends":
            # "a purge that races with a transfer waits": more sends of one dataset than the data server has sender threads, the
            # purge of that dataset at the source right behind them (no payload loss: a lost payload of a purged dataset is
            # legitimately given up)
            if plan["p_drop_payload"] > 0 or len(d["preload"]) > 1 or any(c["ds"] == d["task"] for c in commands):
                continue
            for j in range(rng.randint(3, 4)):
                commands.append({"op": "transmit", "ds": d["task"], "src": src, "dst": others[j % len(others)], "wait": 0})
            commands.append({"op": "purge", "ds": d["task"], "host": src, "wait": 0.1})
            purged.add((d["task"], src))
        kinds.append(k)
    # drop transfers towards a target purged earlier in the list (the dataset is invalid there for good)
    clean, tp = [], set()
    for c in commands:
        if c["op"] == "transmit" and (c["ds"], c["dst"]) in tp and not c.get("after_target_purge"):
            continue
        if c["op"] in ("transmit", "fetch") and (c["ds"], c["src"]) in tp:
            continue
        if c["op"] == "purge":
            tp.add((c["ds"], c["host"]))
        clean.append(c)
    spec = {"tmp": tempfile.mkdtemp(prefix=f"v07-{hid}-"), "seed": f"{shard_no}/{index}", "hosts": hosts, "caddress": f"tcp://localhost:{base}", "plan": plan,
            "datasets": datasets, "commands": clean, "settle_s": 8.0, "source_purge_after_accept": True, "port_block": block}
    # slow-store class: the target's shm server answers the allocation of the first incoming payload 6.5 real seconds late (busy, not
    # lost) -- nothing may be given up, stored twice or left half-written because an answer was slow
    firsts = [c for c in clean if c["op"] == "transmit" and not c.get("after_target_purge") and not any(p["op"] == "purge" and p["ds"] == c["ds"] for p in clean)]
    if firsts and (index % 5 == 3 or rng.random() < 0.05):
        c0 = firsts[0]
        if c0["dst"] not in next(d for d in datasets if d["task"] == c0["ds"])["preload"]:
            pre = sum(1 for d in datasets if c0["dst"] in d["preload"])
            spec["slow_shm"] = {"host": ids.index(c0["dst"]), "nth_allocate": pre + 1, "delay": 6.5}
            kinds.append("slow_shm")
    return spec, plan_class, kinds


def run_scenario(col: Collector, rng, shard_no, slot, index):
    state = rng.getstate()
    if _run_scenario_once(col, rng, shard_no, slot, index, final=False) == "no-result":
        # the harness itself could not start or finish (starved machine): once more, with the same scenario, before giving up
        col.count("scenarios_rerun_after_harness_failure")
        rng.setstate(state)
        _run_scenario_once(col, rng, shard_no, slot, index, final=True)


def _run_scenario_once(col: Collector, rng, shard_no, slot, index, final=True):
    from vlib.common.driver import PY, child_env
    spec, plan_class, kinds = gen_scenario(rng, shard_no, slot, index)
    if not spec["commands"]:
        col.case(shape=("empty",), nontrivial=False)
        import shutil
        from vlib.common import ports
        ports.release(spec["port_block"])
        shutil.rmtree(spec["tmp"], ignore_errors=True)
        return
    fd, path = tempfile.mkstemp(prefix="v07spec", suffix=".json")
    with os.fdopen(fd, "w") as f:
        json.dump(spec, f)
    out = ""
    try:
        p = subprocess.Popen([PY, "-m", "vlib.dataservers", path], env=child_env(), cwd=os.path.dirname(os.path.dirname(os.path.dirname(os.path.abspath(__file__)))),
                             stdout=subprocess.PIPE, stderr=subprocess.DEVNULL, start_new_session=True, text=True)
        try:
            out, _ = p.communicate(timeout=150)
        except subprocess.TimeoutExpired:
            out = ""
        finally:
            try:
                os.killpg(p.pid, signal.SIGKILL)
            except ProcessLookupError:
                pass
            p.wait()
    finally:
        os.unlink(path)
        import glob
        import shutil
        from vlib.common import ports
        ports.release(spec["port_block"])
        shutil.rmtree(spec["tmp"], ignore_errors=True)
        for h in spec["hosts"]:
            for s in glob.glob(f"/dev/shm/sCasc{h['id']}*"):
                try:
                    os.unlink(s)
                except OSError:
                    pass
    res = None
    for ln in out.splitlines():
        if ln.startswith("RESULT "):
            res = json.loads(ln[7:])
    wit = {"events": (res or {}).get("events"), "stacks": (res or {}).get("stacks"), "children_alive": (res or {}).get("children_alive"), "data_server_exits": (res or {}).get("data_server_exits"), "plan": spec["plan"], "plan_class": plan_class, "hosts": [h["id"] for h in spec["hosts"]], "datasets": spec["datasets"], "commands": spec["commands"],
           "stats": (res or {}).get("stats")}
    st = (res or {}).get("stats") or {}
    faults = sum(v for k, v in st.items() if k.endswith(("dropped", "duplicated", "delayed")))
    if (res is None or res.get("outcome") not in ("ok", "inconclusive")) and not final:
        return "no-result"
    col.case(shape=digest(plan_class, kinds, len(spec["hosts"])), nontrivial=faults >= 1 or len(spec["commands"]) >= 2, sample=wit)
    col.count("scenarios")
    if res is not None and res.get("outcome") == "inconclusive":
        # the data servers were still retransmitting at the wall-clock cap (starved machine): no verdict for this scenario; it is
        # excluded from the evaluated set and counted, never folded into 'held'
        col.observe("scenario_without_verdict_servers_still_busy_at_cap")
        col.count("scenarios_excluded_still_busy_at_cap")
        return
    if res is None or res.get("outcome") != "ok":
        # twice without a result: excluded and counted; the check as a whole is inconclusive only when this is common (see run_shard)
        col.observe("scenario_without_result_twice: " + (res or {}).get("error", "timeout")[-120:].replace("\n", " "))
        col.count("scenarios_without_result")
        return
    col.count("scenarios_judged")
    for n_ in res.get("notes", []):
        col.observe(n_)
    for k, v in st.items():
        col.count(k, v)
    seen = set()
    for mech, msg in res["violations"]:
        if mech in seen:
            continue
        seen.add(mech)
        col.violation(mech, msg, wit, index)


def run_shard(spec, col: Collector):
    seed, shard = spec["seed"], spec["shard"]
    for i in range(spec["n"]):
        if col.out_of_time():
            break
        if col.want(i):
            guarded(col, i, run_scenario, col, case_rng(seed, shard, i), spec["shard_no"], i % 8, i)
    lost = col.counters.get("scenarios_without_result", 0) + col.counters.get("scenarios_excluded_still_busy_at_cap", 0)
    if lost and lost * 4 > col.counters.get("scenarios", 0):
        col.not_reached(f"{lost} of {col.counters.get('scenarios', 0)} scenarios of this shard gave no verdict (harness could not start, or servers still busy at the cap)")


def plan(tier, seed, scale=1.0):
    q = tier == "quick"
    n = 5 if q else 100
    return [dict(shard=f"d{c}", shard_no=c, n=max(1, int(n * scale)), budget_s=100 if q else 1500, timeout_s=280 if q else 2400,
                 hash_seed=(seed * 83 + c) % 4294967295) for c in range(8)]
