#!/venv/bin/python
"""Regenerates /verif/MANIFEST.json from the MANIFEST dicts of vlib/checks/c*.py and validates it."""

import ast
import glob
import json
import os
import subprocess

HERE = os.path.dirname(os.path.dirname(os.path.abspath(__file__)))

# properties not claimed: id -> reason
NOT_CLAIMED = {}
DEFAULT_REASON = ("check not built yet in this round (runtime-monitoring check planned in DESIGN.md section 3); "
                  "not claimed until it has been run clean on the unchanged tree")
HOOK_COMMITS = []


def module_meta(path):
    tree = ast.parse(open(path).read())
    out = {}
    for node in tree.body:
        if isinstance(node, ast.Assign) and len(node.targets) == 1 and isinstance(node.targets[0], ast.Name):
            if node.targets[0].id in ("ID", "LEVEL", "MANIFEST"):
                v = node.value
                if isinstance(v, ast.Call) and getattr(v.func, "id", "") == "dict":
                    out[node.targets[0].id] = {k.arg: ast.literal_eval(k.value) for k in v.keywords}
                else:
                    out[node.targets[0].id] = ast.literal_eval(v)
    return out


def main():
    props = [json.loads(l)["id"] for l in open(os.path.join(HERE, "properties.jsonl"))]
    metas = {}
    for p in sorted(glob.glob(os.path.join(HERE, "vlib", "checks", "c[0-9]*.py"))):
        m = module_meta(p)
        if "MANIFEST" in m and m.get("ID") not in NOT_CLAIMED:
            metas[m["ID"]] = (m, os.path.relpath(p, HERE))
    checks, engines = [], {}
    for pid in props:
        if pid not in metas:
            continue
        m, path = metas[pid]
        d = m["MANIFEST"]
        checks.append({
            "property_id": pid,
            "quick_cmd": f"./vcheck {pid} --tier quick",
            "thorough_cmd": f"./vcheck {pid} --tier thorough",
            "evidence_file": f"evidence/{pid}.json",
            "replay_cmd_template": f"./vcheck {pid} --replay {{path}}",
            "engine": d["engine"],
            "level_claimed": {"category": m["LEVEL"], "text": d["text"], "design_ref": f"DESIGN.md section 3 {pid}"},
            "level_note": d["note"],
            "technique": d["technique"],
        })
        e = engines.setdefault(d["engine"], {"name": d["engine"], "path": d.get("engine_path", path), "serves_properties": [], "kind_free_text": d["kind"]})
        e["serves_properties"].append(pid)
    na = [{"property_id": pid, "reason": NOT_CLAIMED.get(pid, DEFAULT_REASON)} for pid in props if pid not in metas]
    m = {
        "version": 1,
        "setup_cmd": "/venv/bin/pip install -q --no-index --find-links /opt/veriftools/wheels --target /verif/.deps icontract || true",
        "hooks": {
            "guard": "EARTHKIT_WORKFLOWS_VERIF",
            "enable": "no in-repo hooks: every seam is reached by harness-level patching; checks run /venv/bin/python with PYTHONPATH=/repo/src:/verif so the working tree is what executes (nothing to build)",
            "baseline_off_cmd": "cd /repo && /venv/bin/python -m pytest -ra -q -p no:cacheprovider --timeout=900 --continue-on-collection-errors",
            "source_commits": HOOK_COMMITS,
            "add_only": True,
        },
        "engines": list(engines.values()),
        "checks": checks,
        "notes": "Technique family: runtime monitoring. See DESIGN.md. known_findings.json lists recorded/fixed genuine defects; seeded/ holds independently written property-breaking changes and which check catches them.",
        "not_applicable": na,
    }
    path = os.path.join(HERE, "MANIFEST.json")
    with open(path, "w") as f:
        json.dump(m, f, indent=1)
    r = subprocess.run(["python3-vt", "-c", "import json,jsonschema,sys; jsonschema.validate(json.load(open(sys.argv[1])), json.load(open('/root/.vp/MANIFEST.schema.json'))); print('manifest valid:', len(json.load(open(sys.argv[1]))['checks']), 'checks')", path])
    return r.returncode


if __name__ == "__main__":
    raise SystemExit(main())
