#!/bin/sh
# runs the repository's own pinned suite (guard off) and prints the pass count; expected: 133 passed
cd "${1:-/repo}" && env -u EARTHKIT_WORKFLOWS_VERIF /venv/bin/python -m pytest -q -p no:cacheprovider --timeout=900 --continue-on-collection-errors 2>&1 | tail -3
