"""E5 -- GraphTerm: independent graph specs, generators with colliding names, and a symbolic term interpreter.

A *spec* is the harness's own description of a DAG: a list (topological order) of
    {"name": str, "outputs": [str], "payload": hashable-ish, "inputs": {iname: (parent_name, output_name)}}
Real `earthkit.workflows.graph.Graph` objects are built from specs; results of the repository's
transformations are read back by walking the real objects. Node *names never occur in terms*.
"""

from __future__ import annotations

from typing import Any


class Malformed(Exception):
    """The result graph is not even a well-formed graph (input is not an Output, dangling output, ...)."""


def freeze(p: Any) -> Any:
    if isinstance(p, (list, tuple)):
        return ("L" if isinstance(p, list) else "T",) + tuple(freeze(x) for x in p)
    if isinstance(p, dict):
        return ("D",) + tuple(sorted((repr(k), freeze(v)) for k, v in p.items()))
    if isinstance(p, (set, frozenset)):
        return ("S",) + tuple(sorted(repr(x) for x in p))
    if isinstance(p, float) and p != p:
        return "nan"
    try:
        hash(p)
        return p if isinstance(p, (str, int, float, bool, bytes, type(None))) else ("O", repr(p))
    except TypeError:
        return ("O", repr(p))


FUSED = "__fused__"


class Interp:
    """Hash-consing term table shared by the spec side and the real-graph side of one case."""

    def __init__(self):
        self.table: dict = {}

    def intern(self, key) -> int:
        t = self.table.get(key)
        if t is None:
            t = len(self.table)
            self.table[key] = t
        return t

    def eval_payload(self, payload, outputs: tuple, inputs: dict) -> int:
        """Term of a node given its (raw) payload, outputs and {iname: (parent term, output name)}."""
        if isinstance(payload, tuple) and len(payload) == 7 and payload[0] == FUSED:
            _, ppay, pouts, pout, cpay, couts, cin = payload
            pin = {k[2:]: v for k, v in inputs.items() if k.startswith("P|")}
            cinp = {k[2:]: v for k, v in inputs.items() if k.startswith("C|")}
            pterm = self.eval_payload(ppay, tuple(pouts), pin)
            cinp[cin] = (pterm, pout)
            return self.eval_payload(cpay, tuple(couts), cinp)
        return self.intern(("N", freeze(payload), tuple(outputs), tuple(sorted(inputs.items()))))

    # ---- spec side ------------------------------------------------------------------------------
    def spec_terms(self, spec: list[dict]) -> dict[str, int]:
        terms: dict[str, int] = {}
        for n in spec:
            ins = {i: (terms[p], o) for i, (p, o) in n["inputs"].items()}
            terms[n["name"]] = self.eval_payload(n["payload"], tuple(n["outputs"]), ins)
        return terms

    # ---- real graph side ------------------------------------------------------------------------
    def graph_terms(self, sinks, cut_sinks: dict | None = None) -> tuple[list[int], dict]:
        """Terms of the given sink nodes; returns (sink terms, {id(node): (node, term)}) for all reachable nodes."""
        from earthkit.workflows.graph import Node, Output
        memo: dict[int, tuple[Any, int]] = {}
        cut_sinks = cut_sinks or {}
        onpath: set[int] = set()

        def resolve_input(node, iname, src):
            if not isinstance(src, Output):
                raise Malformed(f"input {iname!r} of node {getattr(node, 'name', node)!r} is {type(src).__name__} {src!r:.80}, not an Output")
            parent = src.parent
            if not isinstance(parent, Node):
                raise Malformed(f"input {iname!r} of node {node.name!r} has parent of type {type(parent).__name__}")
            if not parent.inputs and parent.name in cut_sinks and parent is not cut_sinks[parent.name]:
                cs = cut_sinks[parent.name]
                if list(cs.inputs) != ["input"]:
                    raise Malformed(f"cut sink {cs.name!r} has inputs {list(cs.inputs)}")
                return resolve_input(cs, "input", cs.inputs["input"])
            if src.name not in parent.outputs:
                raise Malformed(f"input {iname!r} of node {node.name!r} refers to output {src.name!r} which node {parent.name!r} does not have ({parent.outputs})")
            return (term(parent), src.name)

        def term(node) -> int:
            k = id(node)
            if k in memo:
                return memo[k][1]
            if k in onpath:
                raise Malformed(f"cycle through node {node.name!r}")
            onpath.add(k)
            if not isinstance(node.inputs, dict):
                raise Malformed(f"node {node.name!r}.inputs is {type(node.inputs).__name__}")
            ins = {iname: resolve_input(node, iname, src) for iname, src in node.inputs.items()}
            t = self.eval_payload(node.payload, tuple(node.outputs), ins)
            onpath.discard(k)
            memo[k] = (node, t)
            return t

        out = []
        for s in sinks:
            if not isinstance(s, Node):
                raise Malformed(f"sink is {type(s).__name__} {s!r:.80}, not a Node")
            out.append(term(s))
        return out, memo


def terminal_names(spec: list[dict]) -> list[str]:
    consumed = {p for n in spec for (p, _o) in n["inputs"].values()}
    return [n["name"] for n in spec if n["name"] not in consumed]


def build_graph(spec: list[dict], sink_order=None):
    """Real Graph from a spec; returns (graph, {name: Node})."""
    from earthkit.workflows.graph import Graph, Node
    nodes: dict[str, Any] = {}
    for n in spec:
        inputs = {i: nodes[p].get_output(o) for i, (p, o) in n["inputs"].items()}
        nodes[n["name"]] = Node(n["name"], list(n["outputs"]), n["payload"], **inputs)
    tn = terminal_names(spec)
    if sink_order is not None:
        tn = sink_order(tn)
    return Graph([nodes[t] for t in tn]), nodes


def graph_to_spec(graph) -> dict[str, dict]:
    """Independent structural reading of a real graph: name -> {outputs, inputs, payload}; raises Malformed."""
    from earthkit.workflows.graph import Node, Output
    out: dict[str, dict] = {}
    seen: set[int] = set()
    todo = list(graph.sinks)
    while todo:
        n = todo.pop()
        if id(n) in seen:
            continue
        seen.add(id(n))
        if not isinstance(n, Node):
            raise Malformed(f"{type(n).__name__} in graph")
        ins = {}
        for iname, src in n.inputs.items():
            if not isinstance(src, Output):
                raise Malformed(f"input {iname!r} of {n.name!r} is {type(src).__name__}")
            ins[iname] = (src.parent.name, src.name)
            todo.append(src.parent)
        if n.name in out:
            raise Malformed(f"two distinct nodes named {n.name!r}")
        out[n.name] = {"outputs": list(n.outputs), "inputs": ins, "payload": n.payload}
    return out


def spec_as_dict(spec: list[dict]) -> dict[str, dict]:
    return {n["name"]: {"outputs": list(n["outputs"]), "inputs": {i: tuple(v) for i, v in n["inputs"].items()}, "payload": n["payload"]} for n in spec}


# --------------------------------------------------------------------------------------------------
# generators
# --------------------------------------------------------------------------------------------------

NAME_POOL = ["main", "inner", "a", "b", "a.b", "main.inner", "er", "in", "n", "node", "x:y", "a+b", "sp ace", "é",
             "m", "ma", "main.", ".", "i.n", "nn", "ain", "mainmain", "a.a", "b.a", "0", "1", "writer", "reader",
             "name", "payload", "outputs", "__cut__", "ina", "nia.m", "r", "e", "inner.er", "ner"]
PLAIN_POOL = [f"node{i}" for i in range(40)]
OUTPUT_SETS = [["0"], ["0"], ["0"], ["0", "1"], ["a", "b"], ["0", "out"], ["x"], ["0", "1", "2"]]
HOSTILE_OUTPUT_SETS = [["name"], ["payload", "0"], ["inputs"], ["outputs", "name"], ["copy"], ["0", "name"], ["serialise"], ["is_sink"],
                       ["", "0"], ["a", ""], ["0", "00"], ["None", "0"], ["False", "x"], [" ", "0"], ["1", "0"]]     # falsy-looking / empty / padded names
INPUT_NAMES = ["input", "x", "y", "0", "1", "a", "b", "nm", "in put", "input0", "input1", "é"]


def gen_payload(rng, dup_pool: bool, json_safe: bool):
    if dup_pool:
        return rng.choice(["p0", "p1", ("f", 1), ("f", 2), 7, None] if not json_safe else ["p0", "p1", ["f", 1], ["f", 2], 7, None, {"k": 1}])
    k = rng.random()
    u = rng.getrandbits(30)
    if json_safe:
        return rng.choice([f"u{u}", u, ["g", u], {"k": u, "l": [1, 2.5, None, True]}, u + 0.5, [f"s{u}", {"a": None}]])
    return rng.choice([f"u{u}", u, ("g", u), ("h", f"s{u}", (1, 2))]) if k < 0.9 else ("g", u, ("nested", (u,)))


def gen_spec(rng, max_nodes=25, names="collide", hostile_outputs=False, dup_payloads=0.5, json_safe=False,
             min_nodes=0, zero_output_sinks=0.5, prefix="", clones=0.0) -> list[dict]:
    n = rng.randint(min_nodes, max_nodes) if rng.random() < 0.9 else rng.randint(min_nodes, max(min_nodes, 3))
    pool = list(NAME_POOL if names == "collide" else PLAIN_POOL)
    rng.shuffle(pool)
    used: set[str] = set()
    spec: list[dict] = []
    p_edge = rng.choice([0.3, 0.6, 0.9])
    for i in range(n):
        nm = None
        while nm is None or nm in used:
            nm = prefix + (pool.pop() if pool else f"g{i}_{rng.getrandbits(16)}")
        used.add(nm)
        outs = list(rng.choice(HOSTILE_OUTPUT_SETS if hostile_outputs and rng.random() < 0.4 else OUTPUT_SETS))
        inputs = {}
        cands = [m for m in spec if m["outputs"]]
        if cands and rng.random() < p_edge:
            k = rng.choice([1, 1, 2, 2, 3])
            inames = rng.sample(INPUT_NAMES, k)
            for iname in inames:
                par = rng.choice(cands[-6:] if rng.random() < 0.6 else cands)
                inputs[iname] = (par["name"], rng.choice(par["outputs"]))
        payload = gen_payload(rng, rng.random() < dup_payloads, json_safe)
        # near-duplicates: same payload, outputs and input names as an earlier node, one input reading another output of the same
        # multi-output parent (or another parent) -- the pairs a de-duplication must keep apart
        twins = [m for m in spec if m["inputs"] and any(len(next(x for x in spec if x["name"] == p)["outputs"]) > 1 for (p, _o) in m["inputs"].values())]
        if twins and rng.random() < clones:
            m = rng.choice(twins)
            inputs = dict(m["inputs"])
            cand = [i for i, (p, _o) in inputs.items() if len(next(x for x in spec if x["name"] == p)["outputs"]) > 1]
            i = rng.choice(cand)
            par = next(x for x in spec if x["name"] == inputs[i][0])
            others = [o for o in par["outputs"] if o != inputs[i][1]]
            inputs[i] = (par["name"], rng.choice(others))
            outs, payload = list(m["outputs"]), m["payload"]
        elif rng.random() < clones:
            # exact duplicates declared differently: same payload, outputs and inputs as an earlier node, the inputs given in
            # another keyword order -- the pairs a de-duplication must merge
            multi = [m for m in spec if len(m["inputs"]) >= 2]
            if multi:
                m = rng.choice(multi)
                items = list(m["inputs"].items())
                rng.shuffle(items)
                inputs = dict(items)
                outs, payload = list(m["outputs"]), m["payload"]
        spec.append({"name": nm, "outputs": outs, "payload": payload, "inputs": inputs})
    for t in terminal_names(spec):
        node = next(x for x in spec if x["name"] == t)
        if rng.random() < zero_output_sinks and node["inputs"]:
            node["outputs"] = []
    return spec


def spec_shape(spec: list[dict]) -> tuple:
    cons = {}
    for n in spec:
        for (p, o) in n["inputs"].values():
            cons[p] = cons.get(p, 0) + 1
    return (len(spec), sum(len(n["inputs"]) for n in spec), sum(1 for n in spec if len(n["outputs"]) > 1),
            sum(1 for n in spec if not n["outputs"]), len(terminal_names(spec)), sum(1 for v in cons.values() if v > 1),
            tuple(sorted(len(n["inputs"]) for n in spec)))
