"""C11 -- graph transformations preserve the computation the graph denotes (engine E5, GraphTerm)."""

from __future__ import annotations

import copy as _copy
from collections import Counter

from vlib.common.core import Collector, case_rng, digest, guarded
from vlib.graphterm import (FUSED, Interp, Malformed, build_graph, gen_spec, spec_shape, terminal_names)

ID = "C11"
LEVEL = "exploration"
MANIFEST = dict(
    engine="E5-graphterm", engine_path="vlib/graphterm.py",
    kind="generated DAG specs (colliding names) -> real Graph -> real transformation -> symbolic term interpreter compares sinks",
    technique="runtime monitoring with a reference model: an independent hash-consing term interpreter evaluates the sinks of the real transformation's result and of the harness's own spec (expected splice/split semantics built independently) on generated DAGs",
    text="Each generated DAG x transformation is executed by the real copy/rename/deduplicate/fuse/expand/split code; the multiset of sink terms of the result (names excluded) must equal the one computed independently from the spec; extra clauses (no shared nodes, injective renaming, dedup uniqueness+idempotence, single-consumer fusion offers, split partition/cut count/re-join) are asserted per case.",
    note="Holds for the generated graphs (<=25 nodes quick, <=40 thorough) and callback/expander/key families described in the rule; an expanded terminal node with outputs may drop its leaves (not demanded).",
)
RULE = (
    "case = one generated DAG (0-25 nodes, shared sub-expressions, multi-output nodes, zero-output sinks and terminal nodes with "
    "outputs, names from a pool built to collide: prefixes/suffixes/character subsets of each other, '.', ':', '+', space, unicode; "
    "output names equal to Node attribute names in a hostile class) x one transformation (copy, rename, dedup, fuse, expand, split) "
    "with a generated callback/expander/key; non-trivial = >=3 nodes and >=2 edges; distinct = digest(transformation, graph shape, parameter class)"
)
ASSUMPTIONS = [
    "fusion callbacks are drawn from a family that is semantics-preserving by construction (fused payload records both payloads; interpreter unfolds it)",
    "expansions are valid: every *consumed* output of an expanded node maps to an existing sub-graph terminal that has a default output or none",
    "order of sinks is not compared; names do not occur in terms",
]
REQUIRED_COUNTERS = ["copy_checked", "rename_checked", "dedup_checked", "fuse_checked", "fuse_offers", "fuse_fusions",
                     "expand_checked", "expand_nodes_expanded", "split_checked", "split_cuts"]

NODE_ATTRS = {"name", "inputs", "outputs", "payload", "copy", "serialise", "is_sink", "is_source", "is_processor",
              "get_output", "DEFAULT_OUTPUT"}


def consumed_outputs(spec):
    return {(p, o) for n in spec for (p, o) in n["inputs"].values()}


def attr_collision(spec) -> bool:
    return any(o in NODE_ATTRS for (_p, o) in consumed_outputs(spec))


def mech(kind: str, what: str, spec, extra_pred=None) -> str:
    if extra_pred:
        return f"{kind}:{extra_pred}"
    if attr_collision(spec) and what.startswith(("malformed", "raises")):
        return f"{kind}:consumed-output-named-like-node-attribute"
    return f"{kind}:{what}"


def sink_terms_of_spec(it: Interp, spec, only=None):
    terms = it.spec_terms(spec)
    names = terminal_names(spec) if only is None else only
    return Counter(terms[n] for n in names), terms


def witness(spec, **kw):
    return {"spec": [{"name": n["name"], "outputs": n["outputs"], "payload": repr(n["payload"]), "inputs": {k: list(v) for k, v in n["inputs"].items()}} for n in spec], **kw}


# --------------------------------------------------------------------------------------------------

def t_copy(col, rng, spec, index):
    from earthkit.workflows.graph import copy_graph
    it = Interp()
    exp, _ = sink_terms_of_spec(it, spec)
    g, nodes = build_graph(spec)
    before, memo_in = it.graph_terms(g.sinks)
    res = copy_graph(g)
    got, memo = it.graph_terms(res.sinks)
    col.count("copy_checked")
    if Counter(got) != exp:
        col.violation(mech("copy", "terms-differ", spec), "sinks of copy_graph(g) denote different terms", witness(spec), index)
    shared = set(memo) & set(memo_in)
    if shared:
        col.violation("copy:shares-node-objects", f"{len(shared)} Node objects shared between copy and original", witness(spec), index)
    after, _ = it.graph_terms(g.sinks)
    if after != before or Counter(before) != exp:
        col.violation("copy:input-changed", "terms of the input graph changed after copy_graph", witness(spec), index)
    return ("copy",)


def t_rename(col, rng, spec, index):
    from earthkit.workflows.graph import rename_nodes
    it = Interp()
    exp, _ = sink_terms_of_spec(it, spec)
    g, nodes = build_graph(spec)
    kind = rng.choice(["prefix", "suffix", "perm", "dotns"])
    names = [n["name"] for n in spec]
    if kind == "prefix":
        pre = rng.choice(["ns.", "main.", "a", "."])
        f = lambda s: pre + s  # noqa: E731
    elif kind == "suffix":
        suf = rng.choice(["_r", ".x", "main", "."])
        f = lambda s: s + suf  # noqa: E731
    elif kind == "dotns":
        f = lambda s: f"graph1.{s}"  # noqa: E731
    else:
        sh = list(names)
        rng.shuffle(sh)
        table = dict(zip(names, sh))
        f = lambda s: table[s]  # noqa: E731
    res = rename_nodes(f, g)
    got, memo = it.graph_terms(res.sinks)
    col.count("rename_checked")
    if Counter(got) != exp:
        col.violation(mech("rename", "terms-differ", spec), "sinks of rename_nodes(f, g) denote different terms", witness(spec, renamer=kind), index)
    got_names = sorted(n.name for n, _t in memo.values())
    if got_names != sorted(f(n) for n in names):
        col.violation(mech("rename", "names-differ", spec), f"names {got_names[:8]} != f(names)", witness(spec, renamer=kind), index)
    return ("rename", kind)


def dedup_key(n):
    return (tuple(n.outputs), tuple(sorted((i, id(s.parent), s.name) for i, s in n.inputs.items())))


def t_dedup(col, rng, spec, index):
    from earthkit.workflows.graph import deduplicate_nodes
    it = Interp()
    exp, _ = sink_terms_of_spec(it, spec)
    g, nodes = build_graph(spec)
    res = deduplicate_nodes(g)
    got, memo = it.graph_terms(res.sinks)
    col.count("dedup_checked")
    if set(got) != set(exp):
        col.violation(mech("dedup", "terms-differ", spec), "sinks of deduplicate_nodes(g) denote a different set of terms", witness(spec), index)
    if len(set(got)) != len(got):
        col.violation("dedup:duplicate-sinks-left", "two sinks of the result denote the same term", witness(spec), index)
    groups: dict = {}
    for n, _t in memo.values():
        groups.setdefault(dedup_key(n), []).append(n)
    for k, lst in groups.items():
        for i in range(len(lst)):
            for j in range(i + 1, len(lst)):
                if lst[i].payload == lst[j].payload:
                    col.violation(mech("dedup", "duplicates-left", spec), f"nodes {lst[i].name!r} and {lst[j].name!r} agree on payload, outputs and inputs", witness(spec), index)
    if len(memo) < len(spec):
        col.count("dedup_collapsed", len(spec) - len(memo))
    n1 = len(memo)
    res2 = deduplicate_nodes(res)
    got2, memo2 = it.graph_terms(res2.sinks)
    if len(memo2) != n1 or set(got2) != set(got):
        col.violation(mech("dedup", "not-idempotent", spec), f"second application changed the graph: {n1} -> {len(memo2)} nodes", witness(spec), index)
    return ("dedup", len(spec) - len(memo) > 0)


def t_fuse(col, rng, spec, index):
    from earthkit.workflows.graph import Node, fuse_nodes
    it = Interp()
    exp, _ = sink_terms_of_spec(it, spec)
    g, nodes = build_graph(spec)
    count = Counter(p for n in spec for (p, _o) in n["inputs"].values())
    fused_info: dict[int, dict] = {}
    p_refuse = rng.choice([0.0, 0.3, 0.7])
    k = [0]
    bad_offers = []

    def cb(parent, pout, child, cin):
        col.count("fuse_offers")
        c = fused_info[id(parent)]["count"] if id(parent) in fused_info else count[parent.name]
        if c != 1:
            bad_offers.append((parent.name, c))
        if rng.random() < p_refuse:
            return None
        if id(child) in fused_info:
            cmap = fused_info[id(child)]["map"]
            child_count = fused_info[id(child)]["count"]
        else:
            cmap = {i: i for i in child.inputs}
            child_count = count[child.name]
        actual = cmap[cin]
        payload = (FUSED, parent.payload, tuple(parent.outputs), pout, child.payload, tuple(child.outputs), actual)
        inputs = {f"P|{i}": s for i, s in parent.inputs.items()}
        inputs.update({f"C|{i}": s for i, s in child.inputs.items() if i != actual})
        k[0] += 1
        node = Node(f"fz{k[0]}", list(child.outputs), payload, **inputs)
        fused_info[id(node)] = {"map": {orig: f"C|{cur}" for orig, cur in cmap.items() if orig != cin}, "count": child_count, "node": node}
        col.count("fuse_fusions")
        return node

    res = fuse_nodes(cb, g)
    got, memo = it.graph_terms(res.sinks)
    col.count("fuse_checked")
    if Counter(got) != exp:
        col.violation(mech("fuse", "terms-differ", spec), "sinks of fuse_nodes(cb, g) denote different terms", witness(spec, p_refuse=p_refuse), index)
    if bad_offers:
        col.violation("fuse:offered-parent-with-several-consumers", f"callback offered parents with consumer-edge counts {bad_offers[:4]}", witness(spec), index)
    return ("fuse", p_refuse, min(k[0], 3))


# ---- expand --------------------------------------------------------------------------------------

def lstrip_collision(pname: str, sname: str) -> bool:
    full = f"{pname}.{sname}"
    return full.lstrip(f"{pname}.") != sname


def plan_expansions(rng, spec):
    """Choose nodes to expand and build valid (sub-spec, input_map, output_map) triples."""
    consumed = consumed_outputs(spec)
    terminals = set(terminal_names(spec))
    exps = {}
    for n in spec:
        if rng.random() > 0.35:
            continue
        sub = gen_spec(rng, max_nodes=5, min_nodes=1, names="collide", dup_payloads=0.2, zero_output_sinks=0.6)
        # sub-graph node names may repeat names of the outer graph (that is the point) but stay unique inside
        for s in sub:
            if s["name"] in terminal_names(sub) and s["outputs"] and "0" not in s["outputs"]:
                s["outputs"] = ["0"] + s["outputs"][1:]
        sterm = terminal_names(sub)
        ssrc = [s["name"] for s in sub if not s["inputs"]]
        # output map
        omode = rng.choice(["explicit", "explicit", "partial", "identity"])
        omap = {}
        ok = True
        for o in n["outputs"]:
            need = (n["name"], o) in consumed
            if need or rng.random() < 0.7:
                omap[o] = rng.choice(sterm)
            elif rng.random() < 0.5:
                omap[o] = "no_such_leaf"
        output_map = dict(omap)
        if omode == "identity":
            # rename leaves so that identity mapping applies: only possible when the targets are distinct and names free
            targets = list(omap.items())
            if len({v for _o, v in targets}) == len(targets) and all(v != "no_such_leaf" for _o, v in targets):
                ren = {v: o for o, v in targets}
                existing = {s["name"] for s in sub}
                if all(new == old or new not in existing for old, new in ren.items()) and len(set(ren.values())) == len(ren):
                    for s in sub:
                        s["inputs"] = {i: (ren.get(p, p), oo) for i, (p, oo) in s["inputs"].items()}
                    for s in sub:
                        s["name"] = ren.get(s["name"], s["name"])
                    output_map = None
                    ssrc = [s["name"] for s in sub if not s["inputs"]]
        elif omode == "partial":
            output_map = {o: v for o, v in omap.items() if (n["name"], o) in consumed or rng.random() < 0.5}
            # un-listed outputs fall back to identity: acceptable only if not consumed (guaranteed above)
        # input map
        imode = rng.choice(["explicit", "none", "identity"])
        input_map = None
        inames = list(n["inputs"])
        if imode == "explicit":
            input_map = {}
            for sname in ssrc:
                if inames and rng.random() < 0.6:
                    input_map[sname] = rng.choice(inames)
        elif imode == "identity" and inames:
            existing = {s["name"] for s in sub}
            for sname, iname in zip(list(ssrc), rng.sample(inames, min(len(inames), len(ssrc)))):
                if iname not in existing and rng.random() < 0.8:
                    for s in sub:
                        s["inputs"] = {i: (iname if p == sname else p, oo) for i, (p, oo) in s["inputs"].items()}
                    for s in sub:
                        if s["name"] == sname:
                            s["name"] = iname
                    existing.add(iname)
                    if output_map is not None:
                        output_map = {o: (iname if v == sname else v) for o, v in output_map.items()}
                    # identity output mapping refers to names too; renaming a leaf that is a source would break it
            if output_map is None:
                names_now = {s["name"] for s in sub}
                if not all(o in names_now for o in n["outputs"] if (n["name"], o) in consumed):
                    ok = False
        if not ok:
            continue
        exps[n["name"]] = (sub, input_map, output_map)
    return exps


def expected_expand(spec, exps):
    """Documented splice semantics applied independently to the spec.

    Returns (new spec, required sink names, optional sink names): required = input sinks that were not expanded plus the
    un-mapped sub-graph terminals of expanded *terminal* nodes ("sinks not found in the output map are left as is");
    optional = mapped leaves of an expanded terminal node with outputs, and un-mapped sub-graph terminals of an expanded
    *intermediate* node (the implementation drops both; the statement does not demand them).
    """
    new, ref, required, optional = [], {}, [], []
    terminals = set(terminal_names(spec))
    for n in spec:
        ins = {i: ref[(p, o)] for i, (p, o) in n["inputs"].items()}
        if n["name"] not in exps:
            new.append({"name": n["name"], "outputs": list(n["outputs"]), "payload": n["payload"], "inputs": ins})
            for o in n["outputs"]:
                ref[(n["name"], o)] = (n["name"], o)
            if n["name"] in terminals:
                required.append(n["name"])
            continue
        sub, imap, omap = exps[n["name"]]
        eff_inputs = ins if imap is None else {src: ins[m] for src, m in imap.items()}
        outs = {o: (omap.get(o, o) if omap is not None else o) for o in n["outputs"]}
        sterm = set(terminal_names(sub))
        pre = "\x00" + n["name"] + "\x00"  # internal key only (names never occur in terms); cannot collide with outer names
        for s in sub:
            nm = pre + s["name"]
            if not s["inputs"]:
                if s["name"] in eff_inputs:
                    node = {"name": nm, "outputs": list(s["outputs"]), "payload": s["payload"], "inputs": {"input": eff_inputs[s["name"]]}}
                else:
                    node = {"name": nm, "outputs": list(s["outputs"]), "payload": s["payload"], "inputs": {}}
            else:
                sins = {i: (pre + p, o) for i, (p, o) in s["inputs"].items()}
                if not s["outputs"] and s["name"] in outs.values():
                    node = {"name": nm, "outputs": ["0"], "payload": s["payload"], "inputs": sins}
                else:
                    node = {"name": nm, "outputs": list(s["outputs"]), "payload": s["payload"], "inputs": sins}
            new.append(node)
        leaves = {s["name"] for s in sub if s["name"] in sterm and s["name"] in outs.values()}
        for o, lname in outs.items():
            if lname in leaves:
                ref[(n["name"], o)] = (pre + lname, "0")
        inner = [s["name"] for s in sub if s["name"] in sterm and s["name"] not in leaves]
        if n["name"] in terminals:
            required.extend(pre + l for l in inner)
            optional.extend(pre + l for l in leaves)
        else:
            optional.extend(pre + l for l in inner)
    return new, required, optional


def t_expand(col, rng, spec, index):
    from earthkit.workflows.graph import expand_graph
    exps = plan_expansions(rng, spec)
    spec0 = _copy.deepcopy(spec)
    exps0 = _copy.deepcopy(exps)
    it = Interp()
    new, required, optional = expected_expand(spec0, exps0)
    new_terms = it.spec_terms(new)
    exp_min = Counter(new_terms[t] for t in required)
    exp_all = exp_min + Counter(new_terms[t] for t in optional)
    g, nodes = build_graph(spec)
    subgraphs = {}
    for name, (sub, imap, omap) in exps.items():
        sg, _ = build_graph(sub)
        subgraphs[name] = (sg, imap, omap)
    modes = [0]

    def expander(node):
        if node.name not in subgraphs:
            return None
        sg, imap, omap = subgraphs[node.name]
        col.count("expand_nodes_expanded")
        if imap is None and omap is None:
            modes[0] |= 1
            return sg
        modes[0] |= 2
        return sg, imap, omap

    collide = any(lstrip_collision(name, s["name"]) for name, (sub, _i, _o) in exps0.items() for s in sub if s["name"] in terminal_names(sub))
    pred = "leaf-name-lstrip-strips-characters" if collide else None
    col.count("expand_checked")
    if collide:
        col.count("expand_with_name_collision")
    try:
        res = expand_graph(expander, g)
        got, memo = it.graph_terms(res.sinks)
    except Malformed as e:
        col.violation(mech("expand", "malformed-result", spec0, pred), f"{e}", witness(spec0, expansions=_wexp(exps0)), index)
        return ("expand", len(exps), modes[0], collide)
    except Exception as e:  # noqa: BLE001
        col.violation(mech("expand", f"raises-{type(e).__name__}", spec0, pred), f"expand_graph raised {e!r:.200}", witness(spec0, expansions=_wexp(exps0)), index)
        return ("expand", len(exps), modes[0], collide)
    gc = Counter(got)
    if not (all(gc[k] >= v for k, v in exp_min.items()) and all(exp_all[k] >= v for k, v in gc.items())):
        col.violation(mech("expand", "terms-differ", spec0, pred), "sinks of expand_graph(...) do not denote the documented splice of the sub-graphs",
                      witness(spec0, expansions=_wexp(exps0)), index)
    elif gc != exp_all:
        col.observe("expand_optional_subgraph_terminals_dropped")
    return ("expand", min(len(exps), 3), modes[0], collide)


def _wexp(exps):
    return {k: {"sub": witness(v[0])["spec"], "input_map": v[1], "output_map": v[2]} for k, v in exps.items()}


# ---- split ---------------------------------------------------------------------------------------

def t_split(col, rng, spec, index):
    from earthkit.workflows.graph import split_graph
    it = Interp()
    exp, _ = sink_terms_of_spec(it, spec)
    g, nodes = build_graph(spec)
    names = [n["name"] for n in spec]
    kmode = rng.choice(["classes", "classes", "constant", "pernode", "layers"])
    if kmode == "constant":
        table = {n: 0 for n in names}
    elif kmode == "pernode":
        table = {n: i for i, n in enumerate(names)}
    elif kmode == "layers":
        table = {n: i * 3 // max(1, len(names)) for i, n in enumerate(names)}
    else:
        kk = rng.randint(1, 4)
        keys = rng.choice([list(range(kk)), ["k%d" % i for i in range(kk)], [(i, "t") for i in range(kk)]])
        table = {n: rng.choice(keys) for n in names}
    exp_cuts = sum(1 for n in spec for (p, _o) in n["inputs"].values() if table[p] != table[n["name"]])
    parts, cuts = split_graph(lambda node: table[node.name], g)
    col.count("split_checked")
    col.count("split_cuts", len(cuts))
    w = lambda: witness(spec, keys={k: repr(v) for k, v in table.items()})  # noqa: E731
    if len(cuts) != exp_cuts:
        col.violation(mech("split", "cut-count", spec), f"{len(cuts)} cuts reported, {exp_cuts} edges cross keys", w(), index)
    cut_names = {c.name for c in cuts}
    if len(cut_names) != len(cuts):
        col.violation("split:cut-names-collide", "two cut edges share a name", w(), index)
    seen: dict[str, list] = {}
    cut_sinks, cut_sources = {}, {}
    for k, part in parts.items():
        for n in part.nodes():
            if n.name in cut_names:
                if n.inputs:
                    if n.name in cut_sinks:
                        col.violation("split:duplicate-cut-sink", n.name, w(), index)
                    cut_sinks[n.name] = (k, n)
                else:
                    cut_sources.setdefault(n.name, []).append((k, n))
            else:
                seen.setdefault(n.name, []).append(k)
    if sorted(seen) != sorted(names) or any(len(v) != 1 for v in seen.values()):
        col.violation(mech("split", "not-a-partition", spec), f"nodes in parts: { {k: v for k, v in seen.items() if len(v) != 1} } missing: {sorted(set(names) - set(seen))[:5]}", w(), index)
    elif any(seen[n][0] != table[n] for n in names):
        col.violation(mech("split", "node-in-wrong-part", spec), "a node sits in a part other than key(node)", w(), index)
    for c in cuts:
        if c.name not in cut_sinks or cut_sinks[c.name][0] != c.source_key:
            col.violation(mech("split", "cut-sink-missing", spec), f"no sink {c.name} in part {c.source_key!r}", w(), index)
        if not any(k == c.dest_key for k, _n in cut_sources.get(c.name, [])):
            col.violation(mech("split", "cut-source-missing", spec), f"no source {c.name} in part {c.dest_key!r}", w(), index)
        if table.get(c.source_node) != c.source_key or table.get(c.dest_node) != c.dest_key:
            col.violation(mech("split", "cut-edge-misreported", spec), repr(c), w(), index)
    # re-join along the reported cuts
    sinks = [s for part in parts.values() for s in part.sinks if s.name not in cut_names]
    got, _memo = it.graph_terms(sinks, cut_sinks={k: v[1] for k, v in cut_sinks.items()})
    if Counter(got) != exp:
        col.violation(mech("split", "rejoin-terms-differ", spec), "parts re-joined along the cut edges do not give back the original sinks", w(), index)
    return ("split", kmode, min(len(cuts), 4), len(parts))


TRANSFORMS = {"copy": t_copy, "rename": t_rename, "dedup": t_dedup, "fuse": t_fuse, "expand": t_expand, "split": t_split}


def one_case(col: Collector, rng, index: int, max_nodes: int):
    tname = rng.choice(["copy", "rename", "dedup", "dedup", "fuse", "fuse", "expand", "expand", "expand", "split", "split"])
    hostile = rng.random() < 0.15
    spec = gen_spec(rng, max_nodes=max_nodes, names=rng.choice(["collide", "collide", "plain"]), hostile_outputs=hostile,
                    dup_payloads=0.7 if tname == "dedup" else 0.3, clones=0.25 if tname in ("dedup", "fuse", "copy") else 0.05)
    spec0 = _copy.deepcopy(spec)
    try:
        pshape = TRANSFORMS[tname](col, rng, spec, index)
    except Malformed as e:
        col.violation(mech(tname, "malformed-result", spec0), f"{e}", witness(spec0), index)
        pshape = (tname, "malformed")
    except Exception as e:  # noqa: BLE001
        import traceback
        tb = traceback.extract_tb(e.__traceback__)
        inrepo = any("/earthkit/workflows/" in f.filename for f in tb)
        if not inrepo:
            raise
        col.violation(mech(tname, f"raises-{type(e).__name__}", spec0), f"{tname} raised {e!r:.200}", witness(spec0), index)
        pshape = (tname, "raised")
    edges = sum(len(n["inputs"]) for n in spec0)
    col.case(shape=digest(pshape, spec_shape(spec0), hostile), nontrivial=len(spec0) >= 3 and edges >= 2,
             sample={"transformation": tname, "parameters": repr(pshape), "graph": witness(spec0)["spec"][:12]})
    col.count(f"cases_{tname}")


def run_shard(spec, col: Collector):
    seed, shard = spec["seed"], spec["shard"]
    for i in range(spec["n"]):
        if col.out_of_time():
            break
        if col.want(i):
            guarded(col, i, one_case, col, case_rng(seed, shard, i), i, spec["max_nodes"])


def plan(tier, seed, scale=1.0):
    q = tier == "quick"
    n, copies, mx = (2000, 8, 25) if q else (240000, 16, 40)
    return [dict(shard=f"g{c}", n=int(n * scale), max_nodes=mx, budget_s=50 if q else 800, timeout_s=150 if q else 1300,
                 hash_seed=(seed * 13 + c) % 4294967295) for c in range(copies)]
