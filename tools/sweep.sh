#!/bin/sh
# tools/sweep.sh <tier> <seed>...   runs every check sequentially for each seed (evidence redirected), prints one line per run
tier="$1"; shift
cd "$(dirname "$0")/.."
for seed in "$@"; do
  for p in ${CHECKS:-C01 C02 C03 C04 C05 C06 C07 C08 C09 C10 C11 C12 C13 C14 C15 C16 C17 C18 C19}; do
    out=$(VERIF_SEED=$seed VERIF_OUT_DIR=/tmp/vsweep-out ${PYTHONHASHSEED:+PYTHONHASHSEED=$PYTHONHASHSEED} ./vcheck $p --tier $tier 2>&1)
    rc=$?
    echo "seed=$seed $p rc=$rc $(echo "$out" | grep -E '^\[' | cut -c1-110)"
    [ $rc -ne 0 ] && echo "$out" | grep -E "mechanism|INCONCLUSIVE" | cut -c1-300 | head -6
  done
done
rm -rf /tmp/vsweep-out
