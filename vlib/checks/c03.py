"""C03 -- a feasible job always completes: no deadlock, livelock or scheduler crash (engine E1, SimCluster)."""

from vlib.checks._sim import make_plan, run_shard  # noqa: F401

ID = "C03"
LEVEL = "exploration"
MANIFEST = dict(
    engine="E1-simcluster", engine_path="vlib/simcluster.py",
    kind="real controller + scheduler against SimBridge (executable nondeterministic model of the executors, seeded adversarial schedulers); task bodies run through the real runner and serde",
    technique='runtime monitoring with liveness restated as bounded progress in logical steps: the real controller runs against a fair executable model; SimStuck (wait with no queued event and no enabled executor action), SpinDetected (1000 rounds without command or wait), rounds <= events + tasks + 2, any exception out of run, shutdown exactly once after the last command, all tasks executed and outputs fetched at return',
    text='Held = every run terminated within the round bound with all tasks executed, outputs fetched, one shutdown, no crash, stall or spin, for all generated feasible jobs (incl. empty, isolated, more/fewer components than hosts, GPU-bound) and schedules.',
    note="the executors are a model: orders allowed are those the transports allow (FIFO per message socket, FIFO per data socket, purge reaches the data server over a third hop, payloads unordered, per-origin FIFO of events in the default classes).",
)
RULE = 'case = one controller run: generated job DAG x environment (1-4 hosts x 1-4 workers) x scheduler policy x hash seed (see C01); liveness classes over-sampled (empty job, isolated tasks, components vs hosts, single host many workers, chains longer than workers); a separate reorder-by-retransmission class; non-trivial = >=2 tasks and >=1 edge'
ASSUMPTIONS = ["executors eventually execute every command they were given (fair model)", "per-origin FIFO of events except in the reorder-by-retransmission class"]
REQUIRED_COUNTERS = ['runs', 'runs_returned', 'rounds', 'events_returned', 'runs_reorder_class']
plan = make_plan("C03", "liveness", 67)
