"""E2 -- RealCluster: one scenario = real Executor processes (real forked workers, shm server, data server), real Bridge and
real controller.impl.run, with injected faults, a logical-quiescence hang detector, and a process / shared-memory audit.

Run as:  python -m vlib.realcluster <spec.json>     (prints one JSON result line; always in its own session)
"""

from __future__ import annotations

import glob
import json
import os
import signal
import sys
import threading
import time
import traceback


def launch_executor(job, controller_address, workers, host, port_base, pidfile, gpus):
    from vlib import faulttasks
    faulttasks.install_executor_hooks()
    import logging
    logging.disable(logging.CRITICAL)
    if gpus:
        os.environ["CASCADE_GPU_COUNT"] = str(gpus)
    from cascade.executor.executor import Executor
    import cascade.executor.config as cfg
    cfg.logging_config["loggers"][""]["level"] = "CRITICAL"
    for k in cfg.logging_config["loggers"]:
        cfg.logging_config["loggers"][k]["level"] = "CRITICAL"
    ex = Executor(job, controller_address, workers, host, port_base)
    ex.register()
    with open(pidfile, "w") as f:
        json.dump({"executor": os.getpid(), "shm": ex.shm_process.pid, "data": ex.data_server.pid,
                   "workers": {repr(w): (p.pid if p else None) for w, p in ex.workers.items()}}, f)
    faulttasks.log("executor-ready", host)
    ex.recv_loop()
    faulttasks.log("executor-loop-ended", host)


def read_log(path):
    try:
        with open(path) as f:
            out = []
            for ln in f:
                p = ln.split()
                if len(p) >= 3:
                    out.append((float(p[0]), p[1], int(p[2]), p[3:]))
            return out
    except OSError:
        return []


def pid_alive(pid):
    try:
        with open(f"/proc/{pid}/stat") as f:
            return f.read().split(")")[-1].split()[0] != "Z"
    except OSError:
        return False


def descendants(root):
    import psutil
    try:
        return [p for p in psutil.Process(root).children(recursive=True)]
    except Exception:  # noqa: BLE001
        return []


def run_scenario(spec):
    from multiprocessing import get_context
    import logging
    logging.disable(logging.CRITICAL)
    from vlib import faulttasks, jobgen
    tmp = spec["tmp"]
    os.makedirs(tmp, exist_ok=True)
    evlog = os.path.join(tmp, "events.log")
    os.environ["VERIF_EVLOG"] = evlog
    js = spec["job"]
    js["edges"] = [tuple(e) for e in js["edges"]]
    js["ext"] = [tuple(e) for e in js["ext"]]
    job = jobgen.build_job(js, faulttasks.make_fault_callable(spec.get("faults", {}), spec.get("sleeps", {})))
    import cascade.controller.impl as impl
    import cascade.executor.bridge as bridge_mod
    import cascade.scheduler.graph as sgraph
    from cascade.low.core import DatasetId
    hosts = spec["hosts"]            # [{id, workers, port, gpus}]
    for h_ in hosts:   # leftovers of an earlier, killed scenario with the same host id would collide on segment names
        for s_ in glob.glob(f"/dev/shm/sCasc{h_['id']}*"):
            try:
                os.unlink(s_)
            except OSError:
                pass
    caddr = f"tcp://localhost:{spec['cport']}"
    ctx = get_context("fork")
    procs = {}
    for h in hosts:
        pidfile = os.path.join(tmp, f"pids-{h['id']}.json")
        p = ctx.Process(target=launch_executor, args=(job, caddr, h["workers"], h["id"], h["port"], pidfile, h.get("gpus", 0)))
        p.start()
        procs[h["id"]] = p
    res = {"outcome": None, "hang": None, "leaks": None, "values_ok": None, "events": {}, "wall_s": 0.0, "notes": []}
    t0 = time.time()
    state = {"polls": 0, "last_progress": time.monotonic(), "in_shutdown": False, "polls_at_progress": 0}
    out = {}
    bridge_box = {}

    def controller():
        try:
            b = bridge_mod.Bridge(caddr, len(hosts))
            bridge_box["b"] = b
            real_recv = b.mlistener.recv_messages

            def recv(timeout_ms=1000, real=real_recv):
                ms = real(timeout_ms)
                state["polls"] += 1
                if any(type(m).__name__ not in ("ExecutorRegistration", "Ack") for m in ms):
                    state["last_progress"] = time.monotonic()
                    state["polls_at_progress"] = state["polls"]
                return ms
            b.mlistener.recv_messages = recv
            real_sd = b.shutdown

            def sd(real=real_sd):
                state["in_shutdown"] = True
                if spec.get("slow_before_shutdown_s"):
                    # a controller that was busy (a large final output to decode, a long scheduling step) and has not read its socket
                    # for a while when it shuts the cluster down: every executor must still be told to stop
                    time.sleep(spec["slow_before_shutdown_s"])
                return real()
            b.shutdown = sd
            pre = sgraph.precompute(job)
            out["state"] = impl.run(job, b, pre)
        except BaseException as e:  # noqa: BLE001
            out["exc"] = (type(e).__name__, repr(e)[:300], traceback.format_exc()[-800:])

    th = threading.Thread(target=controller, daemon=True)
    th.start()
    # ---- helper kills requested by the scenario ---------------------------------------------------------
    kill = spec.get("kill")
    killed = False
    watchdog = spec.get("watchdog_s", 100)
    hang = None
    while th.is_alive():
        time.sleep(0.1)
        now = time.monotonic()
        ev = read_log(evlog)
        if kill and not killed:
            ready = [e for e in ev if e[1] == "executor-ready"]
            # "idle" = the cluster is up and registered (the Bridge exists), nothing has been dispatched yet or ever will be on that host
            hid_k = hosts[kill["host"]]["id"]
            if kill["at"] == "after_output":
                # a task sequence has finished on that host: its shm server holds at least one dataset, the run still goes on
                moment = any(e[1] == "seq-end" and e[3] and e[3][0].startswith(hid_k + ".") for e in ev)
            else:
                moment = kill["at"] == "idle" or any(e[1] == "body-enter" for e in ev)
            trigger = len(ready) == len(hosts) and "b" in bridge_box and moment
            if trigger:
                try:
                    pids = json.load(open(os.path.join(tmp, f"pids-{hosts[kill['host']]['id']}.json")))
                    target = pids[kill["what"]] if kill["what"] != "worker" else next(iter(pids["workers"].values()))
                    os.kill(target, getattr(signal, kill["signal"]))
                    faulttasks.log("fault-injected", f"kill-{kill['what']}-{kill['signal']}")
                    killed = True
                    state["last_progress"] = time.monotonic()
                    state["polls_at_progress"] = state["polls"]
                except Exception as e:  # noqa: BLE001
                    res["notes"].append(f"kill failed: {e!r}")
                    killed = True
        if time.time() - t0 > watchdog:
            res["outcome"] = "watchdog"
            break
        # ---- logical quiescence = hang ---------------------------------------------------------------------
        b = bridge_box.get("b")
        if b is None or state["in_shutdown"]:
            continue
        t_ref = state["last_progress"]
        polls_since = state["polls"] - state["polls_at_progress"]
        if polls_since < 8 or b.sender.inflight:
            continue
        hcs = {}
        for (t, kind, pid, d) in ev:
            if kind == "hc" and t > t_ref:
                hcs[d[0]] = hcs.get(d[0], 0) + 1
        alive_hosts = [h["id"] for h in hosts if procs[h["id"]].is_alive()]
        if any(hcs.get(h, 0) < 8 for h in alive_hosts):
            continue
        running = {}
        for (t, kind, pid, d) in ev:
            if kind == "body-enter":
                running[(pid, d[0])] = True
            elif kind == "body-exit":
                running.pop((pid, d[0]), None)
        if any(pid_alive(pid) for (pid, _t) in running):
            continue
        hang = {"polls_without_progress": polls_since, "healthchecks_since": hcs, "alive_executors": alive_hosts,
                "seconds_without_progress": round(now - t_ref, 1)}
        break
    res["hang"] = hang
    if res["outcome"] is None:
        if hang:
            res["outcome"] = "hang"
        elif "exc" in out:
            res["outcome"] = "raised"
            res["exception"] = out["exc"][:2]
        else:
            res["outcome"] = "returned"
    res["run_s"] = round(time.time() - t0, 2)
    # ---- values ---------------------------------------------------------------------------------------
    if res["outcome"] == "returned":
        ref = jobgen.reference_eval(js)
        st = out["state"]
        bad = []
        for (t, o) in js["ext"]:
            got = st.outputs.get(DatasetId(t, o), "<absent>")
            if got != ref[(t, o)]:
                bad.append([f"{t}.{o}", repr(got)[:80], repr(ref[(t, o)])[:80]])
        if set(st.outputs) != {DatasetId(t, o) for (t, o) in js["ext"]}:
            bad.append(["keys", repr(sorted(map(repr, st.outputs)))[:100], ""])
        res["values_ok"] = not bad
        res["bad_values"] = bad[:4]
    # ---- audit: processes and shared memory -----------------------------------------------------------------
    if res["outcome"] in ("returned", "raised"):
        leaks = None
        for poll in range(60):
            procs_alive = []
            for p in descendants(os.getpid()):
                try:
                    if p.is_running() and p.status() != "zombie":
                        procs_alive.append(f"{p.pid}:{p.name()}")
                except Exception:  # noqa: BLE001 -- vanished while we looked
                    pass
            segs = [s for h in hosts for s in glob.glob(f"/dev/shm/sCasc{h['id']}*")]
            leaks = {"processes": procs_alive[:8], "segments": [os.path.basename(s) for s in segs][:8], "polls": poll}
            if not procs_alive and not segs:
                break
            for p in procs.values():
                p.join(timeout=0)
            time.sleep(0.25)
        res["leaks"] = leaks
    ev = read_log(evlog)
    kinds = {}
    for e in ev:
        kinds[e[1]] = kinds.get(e[1], 0) + 1
    res["events"] = kinds
    res["fault_fired"] = kinds.get("fault-injected", 0) > 0
    res["log_tail"] = [f"{e[1]} {e[2]} {' '.join(e[3])}" for e in ev if e[1] != "hc"][-40:]
    res["wall_s"] = round(time.time() - t0, 2)
    return res


def cleanup(spec):
    for h in spec["hosts"]:
        for s in glob.glob(f"/dev/shm/sCasc{h['id']}*"):
            try:
                os.unlink(s)
            except OSError:
                pass
        for s in glob.glob(f"/tmp/{h['id']}.w*.socket"):
            try:
                os.unlink(s)
            except OSError:
                pass
    import shutil
    shutil.rmtree(spec["tmp"], ignore_errors=True)


def main():
    spec = json.load(open(sys.argv[1]))
    try:
        res = run_scenario(spec)
    except Exception:  # noqa: BLE001
        res = {"outcome": "harness-error", "error": traceback.format_exc()[-1500:]}
    sys.stdout.write("RESULT " + json.dumps(res) + "\n")
    sys.stdout.flush()
    # kill whatever is left of this scenario (own session) and clean up
    try:
        for p in descendants(os.getpid()):
            try:
                p.kill()
            except Exception:  # noqa: BLE001
                pass
    finally:
        cleanup(spec)
    os._exit(0)


if __name__ == "__main__":
    main()
