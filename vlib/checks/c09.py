"""C09 -- shared-memory datasets keep their bytes, are protected in use, stay reachable (engine E4, ShmHarness)."""

from __future__ import annotations

import os

from vlib.common.core import Collector, case_rng, digest, guarded

ID = "C09"
LEVEL = "exploration"
MANIFEST = dict(
    engine="E4-shmharness", engine_path="vlib/shmharness.py",
    kind="real shm.dataset.Manager + real SharedMemory segments + controllable Disk + virtual clock; unique contents per key so a read identifies its write",
    technique="runtime monitoring of recorded client histories against ground truth kept by the harness: every granted read is compared byte-for-byte with what was written under the key (across page-out/page-in cycles), grants before the writer finished are flagged, page-out submissions and segment unlinks are checked against the table of fresh readers, delayed purges are followed to the last reader close, every finished disk job -- successful or failed, before or after its side effect -- must leave its dataset in a settled status, and 'eventually granted' is decided as bounded progress (a satisfiable request is granted within 3 attempts once the store is quiescent)",
    text="Held = no monitor fired on any history explored; the evidence reports content checks, fresh-reader closes, purges during reads, delayed purges completed, eviction attempts that found nothing evictable and bounded-grant probes.",
    note="Handles older than the staleness window are forfeited (the statement protects only younger ones); after an injected disk failure only safety (no wrong bytes) is demanded for that key; liveness is restated as bounded progress in attempts, not time.",
)
RULE = (
    "case = one history of <=400 (quick) / <=2000 (thorough) operations on a Manager of capacity 4..256 B with 1-8 keys: allocate, finish-write, get, "
    "finish-read, purge, run oldest/random disk job, fail a disk job (clean / after side effect), purge between page-out file write and unlink, advance the "
    "virtual clock (incl. beyond the 15 min staleness windows), bounded-grant probes; non-trivial = >=1 completed page-out and >=20 operations; "
    "distinct = digest of the operation/outcome trace"
)
ASSUMPTIONS = ["clients behave as shm/client.py does (create segment after a granted allocate, close callbacks)", "one Manager per history; monitors run on the thread that drives the Manager"]
REQUIRED_COUNTERS = ["content_checks", "get_granted", "fresh_reader_closes", "purges_during_fresh_read", "delayed_purges_completed", "pageouts_completed", "pageins_completed", "grant_probes", "grant_probes_granted", "eviction_attempts_finding_nothing", "stress_reads_checked"]
PROP = "C09"


def one_history(col: Collector, rng, index: int, max_ops: int, prop: str):
    from vlib.shmharness import History
    prefix = f"v{os.getpid() % 100000:05d}{index % 1000:03d}"
    h = History(col, rng, index, prop, prefix, max_ops)
    n = h.run()
    outs = sum(1 for t in h.trace if t[0] == "job-run" and t[1] == "out" and t[3] == "ok")
    col.case(shape=digest([t[:3] for t in h.trace]), nontrivial=outs >= 1 and n >= 20,
             sample={"capacity": h.capacity, "keys": len(h.keys), "ops": n, "trace_head": h.trace[:30]})
    col.count("operations", n)


def run_stress(spec, col: Collector):
    """Second tier: the real UDP server process + real client processes (vlib/shmstress.py)."""
    import json
    import random
    import signal
    import subprocess
    import tempfile
    from vlib.common.driver import PY, child_env
    rng = random.Random(f"{spec['seed']}/{spec['shard']}")
    for i in range(spec["n"]):
        if col.out_of_time():
            break
        no = spec["shard_no"]
        cap = rng.choice([4096, 20000, 65536])
        from vlib.common import ports
        block, base = ports.acquire()
        sspec = {"seed": f"{spec['seed']}/{spec['shard']}/{i}", "tmp": tempfile.mkdtemp(prefix=f"v08s{no}-"), "prefix": f"vs{block:03x}", "port": base + 5,
                 "capacity": cap, "clients": rng.randint(2, 8), "ops": spec["ops"], "sizes": [s_ for s_ in [10, 40, 200, 1000, 4096, 6000, 30000] if s_ <= cap], "max_s": 60, "keys": 0}
        fd, path = tempfile.mkstemp(prefix="v08spec", suffix=".json")
        with os.fdopen(fd, "w") as f:
            json.dump(sspec, f)
        out = ""
        try:
            p = subprocess.Popen([PY, "-m", "vlib.shmstress", path], env=child_env(), cwd=os.path.dirname(os.path.dirname(os.path.dirname(os.path.abspath(__file__)))),
                                 stdout=subprocess.PIPE, stderr=subprocess.DEVNULL, start_new_session=True, text=True)
            try:
                out, _ = p.communicate(timeout=120)
            except subprocess.TimeoutExpired:
                out = ""
            finally:
                try:
                    os.killpg(p.pid, signal.SIGKILL)
                except ProcessLookupError:
                    pass
                p.wait()
        finally:
            os.unlink(path)
            import shutil
            ports.release(block)
            shutil.rmtree(sspec["tmp"], ignore_errors=True)
        res = None
        for ln in out.splitlines():
            if ln.startswith("RESULT "):
                res = json.loads(ln[7:])
        if res is None or res.get("outcome") != "ok":
            col.not_reached(f"stress scenario produced no result: {(res or {}).get('error', 'timeout')[-300:]}")
            continue
        st = res["stats"]
        col.case(shape=digest("stress", sspec["clients"], cap, st.get("allocated", 0) // 20, st.get("reads", 0) // 20), nontrivial=st.get("reads_checked", 0) > 0 and st.get("barrier_equalities", 0) > 0,
                 sample={"tier": "real server + client processes", "clients": sspec["clients"], "capacity": cap, "stats": st})
        for k, v in st.items():
            col.count(f"stress_{k}", v)
        col.count("stress_scenarios")
        for (prop, mech, msg) in res["violations"]:
            if prop == PROP:
                col.violation(f"stress:{mech}", msg, {"spec": {k: v for k, v in sspec.items() if k != "tmp"}, "stats": st}, i)
            elif prop == "H":
                col.not_reached(f"stress harness: {mech}: {msg[:200]}")


def sweep_stale_segments():
    """Segments of shards that were killed by a watchdog (prefix v<pid mod 100000><case>): remove those whose process is gone."""
    import glob
    import re
    live = set()
    for d in os.listdir("/proc"):
        if d.isdigit():
            live.add(int(d) % 100000)
    for f in glob.glob("/dev/shm/v[0-9]*"):
        m = re.match(r"v(\d{5})\d{3}", os.path.basename(f))
        if m and int(m.group(1)) not in live:
            try:
                os.unlink(f)
            except OSError:
                pass


def run_shard(spec, col: Collector):
    sweep_stale_segments()
    if spec.get("kind") == "stress":
        return run_stress(spec, col)
    import logging
    import warnings
    logging.getLogger("cascade").setLevel(logging.CRITICAL + 10)
    logging.disable(logging.CRITICAL)
    warnings.simplefilter("ignore")
    seed, shard = spec["seed"], spec["shard"]
    for i in range(spec["n"]):
        if col.out_of_time():
            break
        if col.want(i):
            rng = case_rng(seed, shard, i)
            guarded(col, i, one_history, col, rng, i, rng.choice([60, 150, spec["max_ops"]]), spec.get("prop", PROP))


def plan(tier, seed, scale=1.0):
    q = tier == "quick"
    n, copies, ops = (60, 8, 400) if q else (1500, 16, 2000)
    return [dict(shard=f"m{c}", n=int(n * scale), max_ops=ops, prop=PROP, budget_s=60 if q else 900, timeout_s=180 if q else 1500,
                 hash_seed=(seed * 41 + c) % 4294967295) for c in range(copies)] + [
        dict(kind="stress", phase=1, shard=f"x{c}", shard_no=c, n=max(1, int((1 if q else 6) * scale)), ops=120 if q else 400, budget_s=100 if q else 1200, timeout_s=250 if q else 1800)
        for c in range(2 if q else 6)]
