#!/venv/bin/python
"""Mutation self-test: every mutation of selftest/mutations.py is applied to a scratch git worktree of /repo (outside /repo and
/verif, removed as soon as it has been judged); the repository's own suite must still pass there (otherwise the mutation
is not 'realistic' and is reported as such) and the property's check, pointed at the worktree with VERIF_REPO, must print
a VIOLATION for that property.

usage: selftest/run.py [--only <mutation id or property>] [--jobs N] [--tier quick|thorough]
"""

from __future__ import annotations

import argparse
import os
import re
import shutil
import subprocess
import sys
import tempfile
import time
from concurrent.futures import ThreadPoolExecutor

HERE = os.path.dirname(os.path.abspath(__file__))
VERIF = os.path.dirname(HERE)
sys.path.insert(0, HERE)
from mutations import EQUIVALENT, M  # noqa: E402

REPO = "/repo"


def judge(mut, tier):
    wt = tempfile.mkdtemp(prefix=f"ekw-mut-{mut['id']}-")
    out_dir = wt + "-out"
    res = {"id": mut["id"], "prop": mut["prop"], "note": mut["note"]}
    try:
        os.rmdir(wt)
        subprocess.run(["git", "-C", REPO, "worktree", "add", "--detach", "-q", wt, "HEAD"], check=True, capture_output=True)
        path = os.path.join(wt, mut["path"])
        src = open(path).read()
        if src.count(mut["old"]) != 1:
            res["status"] = f"NOT-APPLICABLE (old text occurs {src.count(mut['old'])}x)"
            return res
        open(path, "w").write(src.replace(mut["old"], mut["new"]))
        env = dict(os.environ, PYTHONPATH=f"{wt}/src", PYTHONDONTWRITEBYTECODE="1")
        env.pop("EARTHKIT_WORKFLOWS_VERIF", None)
        t0 = time.time()
        # the pinned baseline = the 133 tests under tests/earthkit_workflows (tests/cascade cannot be imported by the pinned command)
        b = subprocess.run(["/venv/bin/python", "-m", "pytest", "tests/earthkit_workflows", "-q", "-p", "no:cacheprovider", "--timeout=900", "--continue-on-collection-errors"],
                           cwd=wt, env=env, capture_output=True, text=True, timeout=900)
        summary = [ln for ln in b.stdout.splitlines() if re.match(r"^=+ .* in [\d.]+s", ln)]
        summary = summary[-1] if summary else ""
        mm = re.search(r"(\d+) passed", summary)
        passed = int(mm.group(1)) if mm else 0
        failed = re.search(r"(\d+) failed", summary)
        res["baseline"] = f"{passed} passed" + (f", {failed.group(1)} failed" if failed else "")
        if passed < 133 or failed:
            res["status"] = "UNREALISTIC (repository's own tests fail)"
            return res
        env2 = dict(os.environ, VERIF_REPO=wt, VERIF_OUT_DIR=out_dir)
        c = subprocess.run([os.path.join(VERIF, "vcheck"), mut["prop"], "--tier", tier], cwd=VERIF, env=env2, capture_output=True, text=True, timeout=3600)
        mechs = sorted(set(re.findall(r"mechanism=(\S+)", c.stdout)))
        res["exit"] = c.returncode
        res["mechanisms"] = mechs[:4]
        res["check_s"] = round(time.time() - t0, 1)
        if c.returncode == 1 and "VIOLATION property=" + mut["prop"] in c.stdout:
            res["status"] = "CAUGHT"
        elif c.returncode == 2:
            res["status"] = "INCONCLUSIVE: " + " | ".join(re.findall(r"INCONCLUSIVE.*", c.stdout)[:1])[:200]
        else:
            res["status"] = "MISSED"
        return res
    except Exception as e:  # noqa: BLE001
        res["status"] = f"ERROR {e!r:.200}"
        return res
    finally:
        subprocess.run(["git", "-C", REPO, "worktree", "remove", "--force", wt], capture_output=True)
        shutil.rmtree(wt, ignore_errors=True)
        shutil.rmtree(out_dir, ignore_errors=True)
        subprocess.run(["git", "-C", REPO, "worktree", "prune"], capture_output=True)


def main():
    ap = argparse.ArgumentParser()
    ap.add_argument("--only", default=None)
    ap.add_argument("--jobs", type=int, default=3)
    ap.add_argument("--tier", default="quick")
    ap.add_argument("--no-write", action="store_true")
    a = ap.parse_args()
    only = set(a.only.split(",")) if a.only else None
    muts = [m for m in M if only is None or m["id"] in only or m["prop"] in only]
    with ThreadPoolExecutor(max_workers=a.jobs) as ex:
        results = list(ex.map(lambda m: judge(m, a.tier), muts))
    for r in results:
        print(f"{r['id']:36s} {r['prop']} {r['status']:12s} {r.get('baseline', '')} {', '.join(r.get('mechanisms', []))[:120]}")
    caught = sum(1 for r in results if r["status"] == "CAUGHT")
    print(f"caught {caught}/{len(results)}")
    if a.no_write:
        return
    # results accumulate in results.json (keyed by mutation id); RESULTS.md is regenerated from it
    import json
    store_path = os.path.join(HERE, "results.json")
    store = json.load(open(store_path)) if os.path.exists(store_path) else {}
    for r in results:
        r["tier"] = a.tier
        store[r["id"]] = r
    ids = {m["id"] for m in M}
    store = {k: v for k, v in store.items() if k in ids}
    for k, r in store.items():
        if r["status"].startswith("MISSED") and k in EQUIVALENT:
            r["status"] = "MISSED (equivalent mutant: " + EQUIVALENT[k] + ")"
    json.dump(store, open(store_path, "w"), indent=1, sort_keys=True)
    order = {m["id"]: i for i, m in enumerate(M)}
    rows = sorted(store.values(), key=lambda r: order.get(r["id"], 999))
    lines = ["# Mutation self-test results", "",
             "Generated by selftest/run.py. Every mutation is applied to a scratch git worktree of /repo (removed afterwards); the repository's own 133 tests must still pass there; "
             "CAUGHT = the property's check, pointed at the worktree with VERIF_REPO, printed a VIOLATION for that property.", "",
             f"caught {sum(1 for r in rows if r['status'] == 'CAUGHT')} of {len(rows)} judged ({sum(1 for r in rows if r['status'].startswith('UNREALISTIC'))} unrealistic, i.e. the repository's own tests notice them)", "",
             "| mutation | property | tier | baseline | status | mechanisms reported | what it does |", "|---|---|---|---|---|---|---|"]
    for r in rows:
        lines.append(f"| {r['id']} | {r['prop']} | {r.get('tier', '')} | {r.get('baseline', '')} | {r['status']} | {', '.join(r.get('mechanisms', []))[:160]} | {r['note']} |")
    with open(os.path.join(HERE, "RESULTS.md"), "w") as f:
        f.write("\n".join(lines) + "\n")


if __name__ == "__main__":
    main()
