"""E3 -- NetSim: an in-memory zmq shim with a virtual clock under the *real* acknowledged-send layer.

`comms.zmq`, `comms.time` (and `bridge.time`) are replaced; the real Bridge (constructed through its real registration
handshake) and a real Executor object (created with object.__new__, given real Listener / ReliableSender / GraceWatcher
and inert child-process stubs) run their real loops, one loop iteration at a time, single-threaded and deterministic.
The network decides per frame: deliver, drop, duplicate, hold.
"""

from __future__ import annotations

import pickle


class StopLoop(BaseException):
    """Raised by the fake poller at the start of the second loop iteration (not an Exception: the loops' own handlers let it through)."""


class VTime:
    def __init__(self):
        self.ns = 1_700_000_000 * 10**9

    def time_ns(self):
        return self.ns

    def time(self):
        return self.ns / 1e9

    def sleep(self, s):
        self.ns += int(s * 1e9)

    def perf_counter_ns(self):
        return self.ns


class Net:
    def __init__(self, clock: VTime, rng):
        self.clock, self.rng = clock, rng
        self.inbox: dict[str, list] = {}      # address -> [(deliver_at_ns, seq, frames)]
        self.seq = 0
        self.plan = None                      # callable(kind, direction, frames) -> list of delays in ms (empty = drop)
        self.stats = {"frames_sent": 0, "dropped": 0, "duplicated": 0, "held": 0, "acks_dropped": 0, "data_dropped": 0}
        self.log: list = []
        self.plain_sink: list = []           # local callback traffic to addresses nobody listens on (workers, data server)

    def classify(self, frames):
        try:
            m0 = pickle.loads(frames[0])
        except Exception:  # noqa: BLE001
            return "other", None
        n = type(m0).__name__
        if n == "Syn":
            return "data", m0
        if n == "Ack" and len(frames) == 1:
            return "ack", m0
        return "plain", m0

    def send(self, address: str, frames: list[bytes]):
        self.stats["frames_sent"] += 1
        kind, m0 = self.classify(frames)
        delays = [0]
        if self.plan is not None and kind in ("data", "ack"):
            delays = self.plan(kind, address, m0)
        if not delays:
            self.stats["dropped"] += 1
            self.stats["acks_dropped" if kind == "ack" else "data_dropped"] += 1
        if len(delays) > 1:
            self.stats["duplicated"] += len(delays) - 1
        for d in delays:
            if d > 0:
                self.stats["held"] += 1
            self.seq += 1
            self.inbox.setdefault(address, []).append((self.clock.ns + int(d * 1e6), self.seq, list(frames)))
        if len(self.log) < 3000:
            self.log.append([kind, address.split("/")[-1], getattr(m0, "idx", None), delays])

    def ready(self, address):
        q = self.inbox.get(address, [])
        return [e for e in q if e[0] <= self.clock.ns]

    def pop(self, address):
        q = self.inbox[address]
        r = sorted(self.ready(address), key=lambda e: (e[0], e[1]))
        e = r[0]
        q.remove(e)
        return e[2]

    def next_arrival(self, address):
        q = self.inbox.get(address, [])
        return min((e[0] for e in q), default=None)

    def in_flight(self, addresses):
        return sum(len(self.inbox.get(a, [])) for a in addresses)


class FakeSocket:
    def __init__(self, net: Net, kind):
        self.net, self.kind = net, kind
        self.address = None

    def set(self, *a, **k):
        pass

    setsockopt = set

    def bind(self, address):
        self.address = address
        self.net.inbox.setdefault(address, [])

    def connect(self, address):
        self.address = address

    def send(self, b):
        self.net.send(self.address, [bytes(b)])

    def send_multipart(self, frames):
        self.net.send(self.address, [bytes(f) for f in frames])

    def recv_multipart(self):
        return self.net.pop(self.address)

    def close(self, *a):
        pass


class FakePoller:
    def __init__(self, net: Net):
        self.net = net
        self.sock = None
        self.nonzero_polls = 0
        self.budget = None       # number of blocking polls allowed before StopLoop

    def register(self, sock, flags=None):
        self.sock = sock

    def unregister(self, sock):
        pass

    def poll(self, timeout=None):
        net, a = self.net, self.sock.address
        if timeout:  # a blocking poll = the start of a loop iteration
            self.nonzero_polls += 1
            if self.budget is not None and self.nonzero_polls > self.budget:
                raise StopLoop()
        if net.ready(a):
            return [(self.sock, 1)]
        if timeout:
            nxt = net.next_arrival(a)
            limit = net.clock.ns + int(timeout * 1e6)
            net.clock.ns = min(limit, nxt) if nxt is not None and nxt > net.clock.ns else limit
            if net.ready(a):
                return [(self.sock, 1)]
        return []


class FakeContext:
    def __init__(self, net):
        self.net = net

    def socket(self, kind):
        return FakeSocket(self.net, kind)


class FakeZmq:
    PUSH, PULL, LINGER, POLLIN = 8, 7, 17, 1

    def __init__(self, net):
        self.net = net

    def Context(self):
        return FakeContext(self.net)

    def Poller(self):
        return FakePoller(self.net)


class Stub:
    """Inert child process."""
    exitcode = None
    pid = 0

    def is_alive(self):
        return False

    def join(self, *a):
        pass

    def kill(self):
        pass


class World:
    """One controller (real Bridge) and one executor (real Executor loops) over the simulated network."""

    shutdown_calls = 0

    def __init__(self, rng, resend_grace_ms=800):
        import cascade.executor.bridge as bridge_mod
        import cascade.executor.comms as comms
        import cascade.executor.executor as executor_mod
        from cascade.executor.msg import ExecutorRegistration, Worker
        from cascade.low.core import WorkerId
        self.comms, self.bridge_mod, self.executor_mod = comms, bridge_mod, executor_mod
        self.clock = VTime()
        self.net = Net(self.clock, rng)
        self.saved = (comms.zmq, comms.time, bridge_mod.time)
        comms.zmq = FakeZmq(self.net)
        comms.time = self.clock
        bridge_mod.time = self.clock
        self.caddr, self.eaddr = "sim://controller", "sim://executor-h0"
        # ---- executor, without its child processes ------------------------------------------------------
        ex = object.__new__(executor_mod.Executor)
        ex.host = "h0"
        ex.job_instance = None
        ex.param_source = {}
        ex.controller_address = self.caddr
        ex.workers = {WorkerId("h0", "w0"): Stub(), WorkerId("h0", "w1"): Stub()}
        ex.datasets = set()
        ex.heartbeat_watcher = comms.GraceWatcher(grace_ms=executor_mod.heartbeat_grace_ms)
        ex.terminating = False
        ex.mlistener = comms.Listener(self.eaddr)
        ex.sender = comms.ReliableSender(ex.mlistener.address, resend_grace_ms)
        ex.sender.add_host("controller", self.caddr)
        ex.shm_process = Stub()
        ex.data_server = Stub()
        ex.daddress = "sim://data-h0"
        ex.registration = ExecutorRegistration(host="h0", maddress=self.eaddr, daddress=ex.daddress,
                                               workers=[Worker(worker_id=w, cpu=1, gpu=0, memory_mb=1) for w in ex.workers])
        self.ex = ex
        # records at the boundary of the acknowledged layer
        self.sent = {"c2e": [], "e2c": []}       # messages handed to ReliableSender.send
        self.delivered = {"c2e": [], "e2c": []}  # messages returned by the peer's Listener.recv_messages
        self.raised = {"c2e": None, "e2c": None}
        self._wrap_sender(ex.sender, "e2c")
        self._wrap_listener(ex.mlistener, "c2e")
        ex.to_controller(ex.registration)         # what Executor.register() does after starting its children
        # ---- controller: the real Bridge, through its real handshake -----------------------------------
        self.bridge = bridge_mod.Bridge(self.caddr, 1)
        self._wrap_sender(self.bridge.sender, "c2e")
        self._wrap_listener(self.bridge.mlistener, "e2c")
        self.delivered["e2c"].append(ex.registration)  # consumed by the handshake before the wrapper existed
        self.controller_events = []
        real_shutdown = self.bridge.shutdown

        def shutdown(real_shutdown=real_shutdown):
            # the shutdown grace loop polls many times: lift the one-iteration budget while it runs
            self.bridge.mlistener.poller.budget = None
            self.shutdown_calls += 1
            return real_shutdown()
        self.bridge.shutdown = shutdown

    def _wrap_sender(self, sender, direction):
        real = sender.send

        def send(host, m, real=real):
            self.sent[direction].append((m, self.clock.ns))
            return real(host, m)
        sender.send = send

    def _wrap_listener(self, listener, direction):
        real = listener.recv_messages

        def recv_messages(timeout_ms=1000, real=real):
            ms = real(timeout_ms)
            self.delivered[direction].extend(ms)
            return ms
        listener.recv_messages = recv_messages

    def close(self):
        self.comms.zmq, self.comms.time, self.bridge_mod.time = self.saved

    # ---- one loop iteration of an endpoint -----------------------------------------------------------
    def step_controller(self):
        """One blocking loop iteration, then as many further iterations as there are frames ready to read: the real loop
        spins in microseconds while frames are pending (a duplicate at the head of the queue makes recv_messages return
        empty-handed, one frame per iteration), so a reader must never be starved relative to the 800 ms resend grace."""
        self._step_controller_once()
        n = 0
        while self.raised["c2e"] is None and self.net.ready(self.caddr) and n < 500:
            self._step_controller_once()
            n += 1

    def step_executor(self):
        self._step_executor_once()
        n = 0
        while not self.ex.terminating and self.net.ready(self.eaddr) and n < 500:
            self._step_executor_once()
            n += 1

    def _step_controller_once(self):
        if self.raised["c2e"] is not None:
            return
        p = self.bridge.mlistener.poller
        p.nonzero_polls, p.budget = 0, 1
        try:
            self.controller_events.extend(self.bridge.recv_events())
        except StopLoop:
            pass
        except ValueError as e:
            self.raised["c2e"] = (str(e), self.clock.ns)
        finally:
            p.budget = None

    def _step_executor_once(self):
        if self.ex.terminating:
            return
        p = self.ex.mlistener.poller
        p.nonzero_polls, p.budget = 0, 1
        before = len(self.sent["e2c"])
        try:
            self.ex.recv_loop()
        except StopLoop:
            pass
        finally:
            p.budget = None
        if self.ex.terminating and self.raised["e2c"] is None:
            fails = [m for (m, _t) in self.sent["e2c"][before:] if type(m).__name__ == "ExecutorFailure"]
            self.raised["e2c"] = (fails[0].detail if fails else "terminated", self.clock.ns)

    def inject_local(self, m):
        """A message from a local worker (plain callback frame, never subject to faults)."""
        from cascade.executor.serde import ser_message
        self.net.seq += 1
        self.net.inbox[self.eaddr].append((self.clock.ns, self.net.seq, [ser_message(m)]))
