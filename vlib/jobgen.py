"""Job generator shared by E1 (SimCluster), E2 (RealCluster), C16: JobInstance + the harness's own description of it,
symbolic task callables, and the independent sequential reference evaluator."""

from __future__ import annotations

import functools
import hashlib
from typing import Any


# ---- symbolic task bodies (pickled by reference: module-level functions + functools.partial) ------------

def _h(args, kwargs) -> str:
    return hashlib.blake2b(repr((args, sorted(kwargs.items()))).encode(), digest_size=10).hexdigest()


def sym_value(tid: str, i: int, args: tuple, kwargs: dict) -> tuple:
    """A short, hashable value that identifies the task, the output index and (by digest) every argument and its position."""
    return ("T", tid, i, _h(tuple(args), kwargs))


def sym_task(tid, *args, **kwargs):
    return sym_value(tid, 0, args, kwargs)


def sym_gen(tid, nout, *args, **kwargs):
    for i in range(nout):
        yield sym_value(tid, i, args, kwargs)


def sym_none(tid, *args, **kwargs):
    return None


def make_callable(tid: str, nout: int, returns_none: bool = False):
    if returns_none:
        return functools.partial(sym_none, tid)
    if nout == 1:
        return functools.partial(sym_task, tid)
    return functools.partial(sym_gen, tid, nout)


# ---- description ---------------------------------------------------------------------------------------

STATIC_VALUES = [0, 1, -3, 2.5, "s", "input0", None, (1, 2), [3, 4], {"k": 1}, True]


def gen_jobspec(rng, max_tasks=16, shape=None, multi_edges=False, gpu=True, big_outputs=True, allow_none=False, n_tasks=None) -> dict:
    """Returns {"tasks": {tid: {...}}, "edges": [...], "ext": [...], "shape": str}; tasks listed in topological order."""
    shape = shape or rng.choice(["layered", "layered", "triangular", "chain", "diamond", "wide", "components", "isolated", "empty", "fanin"])
    if shape == "empty":
        n = 0
    elif shape == "chain":
        n = rng.randint(2, max_tasks)
    elif shape == "diamond":
        n = rng.randint(4, max(4, max_tasks))
    else:
        n = rng.randint(1, max_tasks)
    if n_tasks is not None:
        n = n_tasks
    tids = [f"t{i}" for i in range(n)]
    parents: dict[str, list[str]] = {t: [] for t in tids}
    if shape == "chain":
        for i in range(1, n):
            parents[tids[i]] = [tids[i - 1]]
    elif shape == "diamond":
        mid = tids[1:-1]
        for m in mid:
            parents[m] = [tids[0]]
        parents[tids[-1]] = rng.sample(mid, min(len(mid), rng.randint(2, 4))) if len(mid) >= 2 else list(mid)
    elif shape == "layered" or shape == "wide" or shape == "fanin":
        nl = rng.randint(1, 2) if shape == "wide" else rng.randint(2, 5)
        layer = {t: (0 if shape != "fanin" or i < n - 1 else 1) if shape == "fanin" else rng.randrange(nl) for i, t in enumerate(tids)}
        if shape == "fanin" and n >= 2:
            parents[tids[-1]] = rng.sample(tids[:-1], min(n - 1, rng.randint(2, 5)))
        else:
            order = sorted(tids, key=lambda t: (layer[t], int(t[1:])))
            tids = order
            for t in tids:
                prev = [u for u in tids if layer[u] < layer[t]]
                if prev and rng.random() < 0.85:
                    parents[t] = rng.sample(prev, min(len(prev), rng.choice([1, 1, 2, 3])))
    elif shape == "triangular":
        p = rng.choice([0.15, 0.3, 0.6])
        for i, t in enumerate(tids):
            parents[t] = [u for u in tids[:i] if rng.random() < p][:4]
    elif shape == "components":
        k = rng.randint(2, 5)
        comp = {t: rng.randrange(k) for t in tids}
        for i, t in enumerate(tids):
            prev = [u for u in tids[:i] if comp[u] == comp[t]]
            if prev and rng.random() < 0.8:
                parents[t] = rng.sample(prev, min(len(prev), rng.choice([1, 1, 2])))
    # isolated: no edges
    tasks: dict[str, dict] = {}
    edges: list[tuple] = []
    for t in tids:
        r = rng.random()
        if big_outputs and r < 0.04:
            nout = rng.choice([11, 12, 13])
        else:
            nout = rng.choice([1, 1, 1, 2, 3, 4])
        names = [str(i) for i in range(nout)] if rng.random() < 0.7 or nout > 4 else rng.sample(["a", "b", "c", "d", "out", "z"], nout)
        # declared order == key-sorted order, so that these engines do not depend on which of the two the runner binds by
        # (C10 owns that question and generates unsorted declarations itself)
        names = sorted(names)
        tasks[t] = {"outputs": names, "static_ps": {}, "static_kw": {}, "needs_gpu": gpu and rng.random() < 0.12,
                    "returns_none": False}
    for t in tids:
        srcs = []
        for p in parents[t]:
            reps = 1
            if multi_edges and rng.random() < 0.3:
                reps = rng.randint(2, 3)
            elif rng.random() < 0.1:
                reps = 2  # the same task (possibly the same dataset) consumed twice
            if len(tasks[p]["outputs"]) > 1 and rng.random() < 0.25:
                # several DIFFERENT outputs of one (generator) producer into one consumer: the consumer needs all of them
                for o in rng.sample(tasks[p]["outputs"], rng.randint(2, min(3, len(tasks[p]["outputs"])))):
                    srcs.append((p, o))
                continue
            for _ in range(reps):
                srcs.append((p, rng.choice(tasks[p]["outputs"])))
        # lay the inputs out over positional slots (with gaps and statics in between) and keyword params
        pos = 0
        kwi = 0
        for (p, o) in srcs:
            if rng.random() < 0.6:
                while rng.random() < 0.25:
                    if rng.random() < 0.6:
                        tasks[t]["static_ps"][str(pos)] = rng.choice(STATIC_VALUES)
                    pos += 1  # gap or static
                if rng.random() < 0.3:
                    tasks[t]["static_ps"][str(pos)] = None  # the placeholder graph2job writes at an upstream position
                edges.append((p, o, t, None, pos))
                pos += 1
            else:
                if rng.random() < 0.35:
                    # a signature default copied into static_input_kw (TaskBuilder.from_callable does that): the upstream value must win
                    tasks[t]["static_kw"][f"k{kwi}"] = rng.choice(STATIC_VALUES)
                edges.append((p, o, t, f"k{kwi}", None))
                kwi += 1
        while rng.random() < 0.3:
            tasks[t]["static_ps"][str(pos)] = rng.choice(STATIC_VALUES)
            pos += 1
        while rng.random() < 0.3:
            tasks[t]["static_kw"][f"s{kwi}"] = rng.choice(STATIC_VALUES)
            kwi += 1
    all_ds = [(t, o) for t in tids for o in tasks[t]["outputs"]]
    mode = rng.choice(["none", "sinks", "some", "some", "all", "one"])
    consumed = {(e[0], e[1]) for e in edges}
    if mode == "none" or not all_ds:
        ext = []
    elif mode == "sinks":
        ext = [d for d in all_ds if d not in consumed]
    elif mode == "all":
        ext = list(all_ds)
    elif mode == "one":
        ext = [rng.choice(all_ds)]
    else:
        ext = [d for d in all_ds if rng.random() < 0.4]
    if allow_none and tids and rng.random() < 0.5:
        t = rng.choice(tids)
        if len(tasks[t]["outputs"]) == 1:
            tasks[t]["returns_none"] = True
    return {"tasks": tasks, "edges": edges, "ext": ext, "shape": shape, "order": tids}


def build_job(js: dict, callable_factory=None):
    """Real JobInstance from the description."""
    callable_factory = callable_factory or make_callable
    from cascade.low.core import DatasetId, JobInstance, Task2TaskEdge, TaskDefinition, TaskInstance
    tasks = {}
    for tid in js["order"]:
        t = js["tasks"][tid]
        kws = {e[3] for e in js["edges"] if e[2] == tid and e[3] is not None} | set(t["static_kw"])
        d = TaskDefinition(entrypoint="", func=TaskDefinition.func_enc(callable_factory(tid, len(t["outputs"]), t.get("returns_none", False))),
                           environment=[], input_schema={k: "Any" for k in sorted(kws)},
                           output_schema={o: "Any" for o in t["outputs"]}, needs_gpu=t["needs_gpu"])
        tasks[tid] = TaskInstance(definition=d, static_input_kw=dict(t["static_kw"]), static_input_ps=dict(t["static_ps"]))
    edges = [Task2TaskEdge(source=DatasetId(s, o), sink_task=k, sink_input_kw=kw, sink_input_ps=ps) for (s, o, k, kw, ps) in js["edges"]]
    return JobInstance(tasks=tasks, edges=edges, ext_outputs=[DatasetId(t, o) for (t, o) in js["ext"]])


def reference_eval(js: dict) -> dict[tuple[str, str], Any]:
    """Independent sequential evaluation: (task, output) -> value. Multi-output values are bound to the declared names in order (declared order is key-sorted in every generated job)."""
    vals: dict[tuple[str, str], Any] = {}
    for tid in js["order"]:
        t = js["tasks"][tid]
        args: list[Any] = []

        def put(i, v):
            while len(args) <= i:
                args.append(None)
            args[i] = v
        for k, v in t["static_ps"].items():
            put(int(k), v)
        kwargs = dict(t["static_kw"])
        for (s, o, k, kw, ps) in js["edges"]:
            if k != tid:
                continue
            if kw is not None:
                kwargs[kw] = vals[(s, o)]
            else:
                put(ps, vals[(s, o)])
        names = list(t["outputs"])
        assert names == sorted(names), "jobgen declares outputs in key-sorted order"
        if t.get("returns_none"):
            vals[(tid, names[0])] = None
        else:
            for i, nm in enumerate(names):
                vals[(tid, nm)] = sym_value(tid, i, tuple(args), kwargs)
    return vals


def gen_env(rng, js: dict, max_hosts=4, max_workers=4):
    """{host: [(worker name, gpu count)]}; a GPU worker exists whenever some task needs one."""
    nh = rng.randint(1, max_hosts)
    env = {}
    for h in range(nh):
        nw = rng.randint(1, max_workers)
        env[f"h{h}"] = [(f"w{w}", 1 if rng.random() < 0.25 else 0) for w in range(nw)]
    if any(t["needs_gpu"] for t in js["tasks"].values()) and not any(g for ws in env.values() for (_w, g) in ws):
        h = rng.choice(list(env))
        i = rng.randrange(len(env[h]))
        env[h][i] = (env[h][i][0], 1)
    return env


def build_env(env: dict):
    from cascade.low.core import Environment, Worker, WorkerId
    return Environment(workers={WorkerId(h, w): Worker(cpu=1, gpu=g, memory_mb=1024) for h, ws in env.items() for (w, g) in ws})


def job_shape(js: dict) -> tuple:
    indeg: dict[str, int] = {}
    for e in js["edges"]:
        indeg[e[2]] = indeg.get(e[2], 0) + 1
    return (js["shape"], len(js["order"]), len(js["edges"]), sum(1 for t in js["tasks"].values() if len(t["outputs"]) > 1),
            len(js["ext"]), tuple(sorted(indeg.values())), sum(1 for e in js["edges"] if e[3] is not None),
            sum(1 for t in js["tasks"].values() if t["needs_gpu"]))
