"""C09 -- shared-memory datasets keep their bytes, are protected in use, stay reachable (engine E4, ShmHarness)."""

from __future__ import annotations

import os

from vlib.common.core import Collector, case_rng, digest, guarded

ID = "C09"
LEVEL = "exploration"
MANIFEST = dict(
    engine="E4-shmharness", engine_path="vlib/shmharness.py",
    kind="real shm.dataset.Manager + real SharedMemory segments + controllable Disk + virtual clock; unique contents per key so a read identifies its write",
    technique="runtime monitoring of recorded client histories against ground truth kept by the harness: every granted read is compared byte-for-byte with what was written under the key (across page-out/page-in cycles), grants before the writer finished are flagged, page-out submissions and segment unlinks are checked against the table of fresh readers, delayed purges are followed to the last reader close, and 'eventually granted' is decided as bounded progress (a satisfiable request is granted within 3 attempts once the store is quiescent)",
    text="Held = no monitor fired on any history explored; the evidence reports content checks, fresh-reader closes, purges during reads, delayed purges completed, eviction attempts that found nothing evictable and bounded-grant probes.",
    note="Handles older than the staleness window are forfeited (the statement protects only younger ones); after an injected disk failure only safety (no wrong bytes) is demanded for that key; liveness is restated as bounded progress in attempts, not time.",
)
RULE = (
    "case = one history of <=400 (quick) / <=2000 (thorough) operations on a Manager of capacity 4..256 B with 1-8 keys: allocate, finish-write, get, "
    "finish-read, purge, run oldest/random disk job, fail a disk job (clean / after side effect), purge between page-out file write and unlink, advance the "
    "virtual clock (incl. beyond the 15 min staleness windows), bounded-grant probes; non-trivial = >=1 completed page-out and >=20 operations; "
    "distinct = digest of the operation/outcome trace"
)
ASSUMPTIONS = ["clients behave as shm/client.py does (create segment after a granted allocate, close callbacks)", "one Manager per history; monitors run on the thread that drives the Manager"]
REQUIRED_COUNTERS = ["content_checks", "get_granted", "fresh_reader_closes", "purges_during_fresh_read", "delayed_purges_completed", "pageouts_completed", "pageins_completed", "grant_probes", "grant_probes_granted", "eviction_attempts_finding_nothing"]
PROP = "C09"


def one_history(col: Collector, rng, index: int, max_ops: int, prop: str):
    from vlib.shmharness import History
    prefix = f"v{os.getpid() % 100000:05d}{index % 1000:03d}"
    h = History(col, rng, index, prop, prefix, max_ops)
    n = h.run()
    outs = sum(1 for t in h.trace if t[0] == "job-run" and t[1] == "out" and t[3] == "ok")
    col.case(shape=digest([t[:3] for t in h.trace]), nontrivial=outs >= 1 and n >= 20,
             sample={"capacity": h.capacity, "keys": len(h.keys), "ops": n, "trace_head": h.trace[:30]})
    col.count("operations", n)


def run_shard(spec, col: Collector):
    import logging
    import warnings
    logging.getLogger("cascade").setLevel(logging.CRITICAL + 10)
    logging.disable(logging.CRITICAL)
    warnings.simplefilter("ignore")
    seed, shard = spec["seed"], spec["shard"]
    for i in range(spec["n"]):
        if col.out_of_time():
            break
        if col.want(i):
            rng = case_rng(seed, shard, i)
            guarded(col, i, one_history, col, rng, i, rng.choice([60, 150, spec["max_ops"]]), spec.get("prop", PROP))


def plan(tier, seed, scale=1.0):
    q = tier == "quick"
    n, copies, ops = (60, 8, 400) if q else (1500, 16, 2000)
    return [dict(shard=f"m{c}", n=int(n * scale), max_ops=ops, prop=PROP, budget_s=60 if q else 900, timeout_s=180 if q else 1500,
                 hash_seed=(seed * 41 + c) % 4294967295) for c in range(copies)]
