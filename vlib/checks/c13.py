"""C13 -- fluent programs denote the arrays NumPy would compute, batched or not (engine E6, FluentShadow)."""

from __future__ import annotations

from vlib.common.core import Collector, case_rng, digest, guarded

ID = "C13"
LEVEL = "exploration"
MANIFEST = dict(
    engine="E6-fluentshadow", engine_path="vlib/fluentshadow.py",
    kind="generated fluent programs executed through the real fluent API; the resulting graph is evaluated by an independent interpreter and compared, coordinate by coordinate, with a NumPy shadow model; batch sizes swept",
    technique="runtime monitoring with a reference model: every generated program (source arrays over 1-3 node dimensions, compositions of map/reduce/named reductions/stack/concatenate/flatten/expand/sel/isel/broadcast/join/arithmetic/transform/generator map) is built with the real fluent API, its graph evaluated sequentially, and dims, coords and every value compared with the NumPy shadow; the same program is rebuilt with other batch sizes and must give the same values",
    text="Held = every generated program built without raising, had the documented dims/coords, agreed with NumPy at every coordinate, and was batch-size invariant for every batch size tried (0,1,2,3,n-1,n,n+1).",
    note="integer-valued float64 data (exactly representable intermediate results, rtol 1e-9) plus a random-float class (rtol 1e-6); the coordinate value of a dimension kept by keep_dim is not compared (undocumented); dimension order after broadcast is not compared.",
)
RULE = (
    "case = one fluent program: source over 1-3 node dims (sizes 2-5; int/str/float coords), inner arrays of rank 0-3, 1-3 composed operations; "
    "every reduced/stacked/concatenated dim has size>=2 at the time of the operation; one reduction of the program is re-run with 2-3 further batch sizes; "
    "non-trivial = >=2 operations or a reduction; distinct = digest(source shape, op descriptor classes)"
)
ASSUMPTIONS = ["payload convention (func, args, kwargs) with input names substituted; i-th yield of a generator is output str(i)", "NumPy is the oracle"]
REQUIRED_COUNTERS = ["long_dimension_programs", "programs_compared", "batch_variants_compared", "reductions", "keep_dim_cases", "batched_cases", "float_programs"]


def op_class(op):
    k = op["op"]
    if k == "reduce":
        return (k, op["name"], "keep" if op["keep"] else "drop")
    if k in ("arith_scalar", "arith_action"):
        return (k, op["name"])
    return (k,)


def classify_raise(op, src_sizes, e):
    k = op["op"]
    if k == "reduce":
        return f"{op['name']}:raises-{type(e).__name__}:{'batched' if op.get('_batched') else 'unbatched'}:{'keep_dim' if op['keep'] else 'drop_dim'}"
    return f"{k}:raises-{type(e).__name__}"


def explained_by_zero_variance_std(fs, src, ops, action, batch, rtol, order):
    """True iff the program contains a std over 1 < batch < n and every disagreeing entry descends from an entry of that std whose
    true value is zero (the recorded finding: sqrt(E[x^2] - mean^2) cancels to NaN or ~1e-8 there)."""
    s = fs.shadow_source(src)
    tainted = False
    for i, op in enumerate(ops):
        op2 = dict(op, batch=batch[i]) if i in batch else op
        if op2["op"] == "reduce" and op2["name"] == "std" and 1 < op2["batch"] < s.size(op2["dim"]):
            tainted = True
        s = fs.shadow_apply(s, op2, taint_zero_std=True)
    if not tainted:
        return False
    try:
        return fs.compare(action, s, rtol=rtol, require_dim_order=order, ignore_nan_expected=True) is None
    except Exception:  # noqa: BLE001
        return False


def one_program(col: Collector, rng, index: int):
    import numpy as np
    from vlib import fluentshadow as fs
    floats = rng.random() < 0.15
    src, ops = fs.gen_program(rng, depth=3, floats=floats)
    if not floats and rng.random() < 0.08:
        # sources of a narrow element type (bool masks, 8/16-bit integers) under one reduction: NumPy accumulates sum / prod / mean of
        # the stacked sources in a wide type, and so must the program, batched or not
        src = dict(src, dtype=rng.choice(["bool", "int8", "uint8", "int16"]))
        dim = rng.choice(src["dims"])
        n_ = len(src["coords"][dim])
        ops = [{"op": "reduce", "name": rng.choice(["sum", "sum", "prod", "mean", "max", "min"]), "dim": dim, "batch": rng.choice([0, 0, 2, n_ - 1, n_]), "keep": rng.random() < 0.3}]
        col.count("narrow_dtype_programs")
    elif rng.random() < 0.12:
        # a long dimension under one reduction: with n >= 6 a batched reduction is batched again (6 -> 3 -> 2 -> 1), and levels
        # after the first may be uneven although the first was even -- any batch size 2..n-1, divisors of n twice as likely
        n_ = rng.randint(6, 24)
        src = {"dims": [fs.DIM_NAMES[0]], "coords": {fs.DIM_NAMES[0]: list(range(n_))}, "inner": tuple(rng.randint(2, 3) for _ in range(rng.choice([0, 1, 2]))),
               "seed": rng.randrange(10**6), "floats": floats}
        cand = list(range(2, n_)) + [b_ for b_ in range(2, n_) if n_ % b_ == 0]
        ops = [{"op": "reduce", "name": rng.choice(list(fs.REDUCTIONS) + ["mean", "std"]), "dim": fs.DIM_NAMES[0], "batch": rng.choice(cand), "keep": rng.random() < 0.3}]
        col.count("long_dimension_programs")
    if not ops:
        col.case(shape=("empty",), nontrivial=False)
        return
    rtol = 1e-6 if floats else 1e-9
    # which reductions are really batched?
    s = fs.shadow_source(src)
    red_idx = []
    for i, op in enumerate(ops):
        if op["op"] == "reduce":
            n = s.size(op["dim"])
            op["_n"] = n
            op["_batched"] = 1 < op["batch"] < n
            red_idx.append(i)
            col.count("reductions")
            if op["keep"]:
                col.count("keep_dim_cases")
            if op["_batched"]:
                col.count("batched_cases")
        s = fs.shadow_apply(s, op)
    shadow = s
    wit = {"source": {k: (list(v) if isinstance(v, tuple) else v) for k, v in src.items()}, "ops": [{k: v for k, v in op.items() if not k.startswith("_")} for op in ops]}
    col.case(shape=digest((len(src["dims"]), len(src["inner"]), [op_class(o) for o in ops], [o.get("_batched") for o in ops])),
             nontrivial=len(ops) >= 2 or bool(red_idx), sample=wit)
    if floats:
        col.count("float_programs")
    order = not any(o["op"] == "broadcast" for o in ops)
    a, bad, exc = fs.run_fluent(src, ops)
    if a is None:
        col.violation(classify_raise(ops[bad], None, exc), f"op #{bad} {ops[bad]['op']} raised {exc!r:.200} on an input inside the documented domain", wit, index)
        return
    try:
        diff = fs.compare(a, shadow, rtol=rtol, require_dim_order=order)
    except Exception as e:  # noqa: BLE001 -- evaluating the graph failed
        col.violation(f"evaluation-raises-{type(e).__name__}:{'+'.join(o['op'] for o in ops)}", f"evaluating the program's graph raised {e!r:.200}", wit, index)
        return
    col.count("programs_compared")
    if diff:
        last_red = next((o for o in reversed(ops) if o["op"] == "reduce"), None)
        if (len(diff) > 2 and diff[2].get("cancellation_at_zero") and any(o["op"] == "reduce" and o["name"] == "std" and o["_batched"] for o in ops)) or \
                (diff[0] in ("nan", "values") and explained_by_zero_variance_std(fs, src, ops, a, {}, rtol, order)):
            col.violation("batched-std-cancellation-at-zero-variance", diff[1], wit, index)
            return
        tag = ""
        if last_red is not None:
            tag = f":{last_red['name']}:{'batched' if last_red['_batched'] else 'unbatched'}:{'keep_dim' if last_red['keep'] else 'drop_dim'}"
        col.violation(f"{diff[0]}-differ:{ops[-1]['op']}{tag}{':float' if floats else ''}", diff[1], wit, index)
        return
    # batch-size invariance: same program, other batch sizes for one reduction
    if red_idx:
        i = rng.choice(red_idx)
        n = ops[i]["_n"]
        for b in rng.sample([0, 1, 2, 3, n - 1, n, n + 1], 3):
            if b == ops[i]["batch"] or b < 0:
                continue
            a2, bad2, exc2 = fs.run_fluent(src, ops, batch={i: b})
            op = dict(ops[i], batch=b, _batched=1 < b < n)
            w2 = dict(wit, batch_override={"op": i, "batch": b})
            if a2 is None:
                if bad2 == i:
                    col.violation(classify_raise(op, None, exc2), f"reduction with batch_size={b} (n={n}) raised {exc2!r:.200}", w2, index)
                else:
                    col.violation(classify_raise(ops[bad2], None, exc2) + ":after-rebatching", f"{exc2!r:.200}", w2, index)
                continue
            try:
                d2 = fs.compare(a2, shadow, rtol=rtol, require_dim_order=order)
            except Exception as e:  # noqa: BLE001
                col.violation(f"evaluation-raises-{type(e).__name__}:batched", f"{e!r:.200}", w2, index)
                continue
            col.count("batch_variants_compared")
            if d2 and ((len(d2) > 2 and d2[2].get("cancellation_at_zero") and op["name"] == "std" and op["_batched"]) or
                       (d2[0] in ("nan", "values") and explained_by_zero_variance_std(fs, src, ops, a2, {i: b}, rtol, order))):
                col.violation("batched-std-cancellation-at-zero-variance", f"batch_size={b} (n={n}): {d2[1]}", w2, index)
            elif d2:
                col.violation(f"batch-size-changes-result:{op['name']}:{d2[0]}:{'keep_dim' if op['keep'] else 'drop_dim'}{':float' if floats else ''}",
                              f"batch_size={b} (n={n}): {d2[1]}", w2, index)


def run_shard(spec, col: Collector):
    import warnings
    warnings.simplefilter("ignore")
    seed, shard = spec["seed"], spec["shard"]
    for i in range(spec["n"]):
        if col.out_of_time():
            break
        if col.want(i):
            guarded(col, i, one_program, col, case_rng(seed, shard, i), i)


def plan(tier, seed, scale=1.0):
    q = tier == "quick"
    n, copies = (120, 8) if q else (10000, 16)
    return [dict(shard=f"f{c}", n=int(n * scale), budget_s=60 if q else 900, timeout_s=180 if q else 1500,
                 hash_seed=(seed * 43 + c) % 4294967295) for c in range(copies)]
