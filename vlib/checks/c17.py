"""C17 -- every wire and file encoding round-trips over its whole value domain (engine E7).

Monitors (all on the real encoders/decoders of /repo):
  shm      cascade.shm.api.ser/deser for every message class of the protocol
  shmwire  the same through a real UDP shm server process (thorough tier)
  msg      cascade.executor.serde.ser_message/des_message for every class of executor.msg.Message
  frames   payload framing: send_data / ReliableSender.send frames -> Listener._recv_one
  zmqframes  the same over real zmq ipc sockets (few)
  report   controller.report.serialize/deserialize
  gateway  requests through client.request_response -> real parse_request; responses through
           serialize_response -> the client's parser
  job      JobInstance -> JSON -> JobInstance (both dump paths the repository uses)
"""

from __future__ import annotations

import dataclasses
import os
import string
import tempfile
import threading

from vlib.common.core import Collector, case_rng, guarded

ID = "C17"
LEVEL = "exploration"
MANIFEST = {'engine': 'E7-codec', 'kind': 'generated message values through the real encoders, offline comparison', 'technique': 'runtime round-trip monitors on the real encoders/decoders over generated boundary and random message values (incl. real UDP shm server and real zmq frames)', 'text': "Every message value generated (boundary grid of sizes/strings, then seeded random) is pushed through the repository's own ser/deser pair and compared; values inside the domain must not raise, values outside must raise or come back unchanged. Held = on all values generated, not on the whole domain.", 'note': 'Trusts pickle/orjson/pydantic/libzmq themselves; inside-domain for sizes is 0..2^48; datagram size limit (1024 B) is transport, not encoding.'}
RULE = (
    "cases = one message value per encoder (boundary grid of integers 0,1,2^31+-1,2^32-1,2^32,2^32+1,2^40,2^48,"
    "2^63-1 crossed with empty/1-char/24-hex/printable/255-char strings, then seeded random values); a case is "
    "non-trivial when the message has >=1 field; distinct = (encoder, message class, per-field boundary class) digest"
)
ASSUMPTIONS = [
    "inside-domain for shm sizes/free-space: 0 <= n <= 2^48 (larger than any /dev/shm; this sandbox has 63 GiB); keys/ids: ASCII, <= 900 chars (the 1024-byte datagram is a transport limit, not an encoding one)",
    "outside-domain values (negative sizes, non-ASCII keys, sizes >= 2^64) must raise at ser; between 2^48 and 2^64 either outcome is accepted but never a silent change",
    "zmq transport itself (libzmq) is trusted; NetSim-style fake sockets are used for volume and real ipc sockets for a slice",
]
REQUIRED_COUNTERS = ["shm_roundtrips", "msg_roundtrips", "frame_roundtrips", "report_roundtrips",
                     "gateway_roundtrips", "job_roundtrips"]

INT_GRID = [0, 1, 2, 255, 256, 65535, 65536, 2**31 - 1, 2**31, 2**31 + 1, 2**32 - 1, 2**32, 2**32 + 1,
            2**40, 2**48]
INT_BEYOND = [2**48 + 1, 2**53, 2**63 - 1, 2**63, 2**64 - 1]
INT_OUTSIDE = [-1, -2**31, 2**64, 2**70]
SHM_SIZE_MAX_INSIDE = 2**48


def str_grid(rng):
    return ["", "a", "0123456789abcdef01234567", string.printable.strip()[:90], "k" * 200, "x" * 255, "y" * 256, "z" * 257, "w" * 700,
            "q" * 1019, "r" * 1020, "s" * 1024, "t" * 5000, "u" * 70000,     # beyond one datagram: may be refused, must never come back shorter
            "".join(rng.choice(string.ascii_letters + string.digits + "._-:/ ") for _ in range(rng.randint(1, 40)))]


def int_class(n: int) -> str:
    if n < 0:
        return "neg"
    if n < 2**31:
        return "lt31"
    if n < 2**32:
        return "lt32"
    if n == 2**32:
        return "eq32"
    if n <= 2**48:
        return "le48"
    if n < 2**64:
        return "lt64"
    return "ge64"


def str_class(s: str) -> str:
    if not s.isascii():
        return "nonascii"
    return "empty" if s == "" else ("one" if len(s) == 1 else ("long" if len(s) > 100 else "mid"))


def rand_int(rng) -> int:
    k = rng.random()
    if k < 0.5:
        return rng.choice(INT_GRID)
    if k < 0.6:
        return rng.choice(INT_BEYOND)
    if k < 0.65:
        return rng.choice(INT_OUTSIDE)
    return rng.getrandbits(rng.choice([8, 16, 31, 32, 33, 40, 48]))


def rand_str(rng, allow_nonascii=True) -> str:
    k = rng.random()
    if k < 0.5:
        return rng.choice(str_grid(rng))
    if allow_nonascii and k < 0.56:
        return rng.choice(["é", "kéy", "日本", "a b", "\udc80"])
    n = rng.choice([0, 1, 2, 7, 24, 63, 64, 128, 200, 255, 256, 300, 513])
    return "".join(rng.choice(string.printable) for _ in range(n))


# ----------------------------------------------------------------------------------------------
# shm.api
# ----------------------------------------------------------------------------------------------

def shm_eq(a, b) -> bool:
    if type(a) is not type(b):
        return False
    if dataclasses.is_dataclass(a):
        return a == b
    return True  # field-less commands are compared by type


def shm_classes(api):
    """Every message class the protocol uses: the tag table plus every class the client/server hand to ser()."""
    classes = list(dict.fromkeys(list(api.b2c.values())))
    for name in ("GetRequest", "PurgeRequest", "DatasetStatusRequest", "DatasetStatusResponse", "GetResponse",
                 "AllocateRequest", "AllocateResponse", "CloseCallback", "ShutdownCommand", "StatusInquiry",
                 "FreeSpaceRequest", "OkResponse", "FreeSpaceResponse"):
        c = getattr(api, name, None)
        if c is not None and c not in classes:
            classes.append(c)
    return classes


def gen_shm(api, cls, rng, grid_point=None):
    """Returns (message, inside_domain: bool, outside_domain: bool, shape)."""
    if not dataclasses.is_dataclass(cls):
        return cls(), True, False, (cls.__name__,)
    kw = {}
    inside, outside = True, False
    shape = [cls.__name__]
    for f in dataclasses.fields(cls):
        t = f.type if isinstance(f.type, str) else getattr(f.type, "__name__", str(f.type))
        if t == "str":
            v = grid_point["s"] if grid_point else rand_str(rng)
            if not v.isascii():
                outside, inside = True, False
            elif len(v) > 900:
                inside = False
            shape.append(str_class(v))
        elif t == "int":
            v = grid_point["i"] if grid_point else rand_int(rng)
            if v < 0 or v >= 2**64:
                outside, inside = True, False
            elif v > SHM_SIZE_MAX_INSIDE:
                inside = False
            shape.append(int_class(v))
        elif t == "DatasetStatus":
            v = rng.choice(list(api.DatasetStatus))
            shape.append(v.name)
        else:
            raise AssertionError(f"unknown field type {t} in {cls}")
        kw[f.name] = v
    return cls(**kw), inside, outside, tuple(shape)


def check_shm_value(api, col: Collector, m, inside, outside, shape, index):
    col.case(shape=("shm",) + shape, nontrivial=dataclasses.is_dataclass(m),
             sample={"encoder": "shm.api", "message": repr(m)[:300]})
    cname = type(m).__name__
    try:
        raw = api.ser(m)
    except Exception as e:  # noqa: BLE001
        col.count("shm_ser_raised")
        if inside:
            mech = f"shm-ser-raises-inside-domain:{cname}:{type(e).__name__}"
            col.violation(mech, f"api.ser({m!r}) raised {e!r} for a value inside the protocol's domain", {"message": repr(m)}, index)
        return
    if outside:
        # not rejected at encoding: must at least not come back as something else (never silently truncated)
        try:
            back = api.deser(raw)
            same = shm_eq(back, m)
        except Exception:  # noqa: BLE001
            same = False
        mech = f"shm-outside-domain-not-rejected:{cname}"
        if not same:
            col.violation(mech, f"api.ser({m!r}) did not raise and does not decode to the original", {"message": repr(m)}, index)
        else:
            col.observe("outside_domain_value_roundtripped")
        return
    try:
        back = api.deser(raw)
    except Exception as e:  # noqa: BLE001
        col.violation(f"shm-deser-raises:{cname}:{type(e).__name__}", f"api.deser(api.ser({m!r})) raised {e!r}", {"message": repr(m)}, index)
        return
    col.count("shm_roundtrips")
    col.count(f"shm_roundtrips:{cname}")
    if not shm_eq(back, m):
        col.violation(f"shm-roundtrip-differs:{cname}", f"deser(ser(m)) = {back!r} != {m!r}", {"message": repr(m), "back": repr(back)}, index)


def run_shm(spec, col: Collector):
    import cascade.shm.api as api
    classes = shm_classes(api)
    seed, shard = spec["seed"], spec["shard"]
    idx = 0
    rng = case_rng(seed, shard, "grid")
    if spec.get("grid", True):
        for cls in classes:
            for i in INT_GRID + INT_BEYOND + INT_OUTSIDE:
                for s in str_grid(rng) + ["é"]:
                    if col.want(idx):
                        m, inside, outside, shape = gen_shm(api, cls, rng, {"i": i, "s": s})
                        guarded(col, idx, check_shm_value, api, col, m, inside, outside, shape, idx)
                    idx += 1
                    if not dataclasses.is_dataclass(cls):
                        break
                if not dataclasses.is_dataclass(cls):
                    break
    base = 1_000_000
    for i in range(spec["n"]):
        if col.out_of_time():
            break
        if not col.want(base + i):
            continue
        rng = case_rng(seed, shard, i)
        cls = rng.choice(classes)
        m, inside, outside, shape = gen_shm(api, cls, rng)
        guarded(col, base + i, check_shm_value, api, col, m, inside, outside, shape, base + i)
    # every tag must decode to its own class (tables are mutually inverse and complete)
    for cls in classes:
        if cls not in api.c2b:
            col.violation(f"shm-class-without-tag:{cls.__name__}", f"{cls.__name__} is sent by the protocol but has no tag in c2b/b2c", None, None)
        elif api.b2c[api.c2b[cls]] is not cls:
            col.violation(f"shm-tag-table-mismatch:{cls.__name__}", "b2c[c2b[cls]] is not cls", None, None)
        col.count("shm_tag_checks")


# ----------------------------------------------------------------------------------------------
# shm over the real UDP server (thorough)
# ----------------------------------------------------------------------------------------------

def run_shmwire(spec, col: Collector):
    import multiprocessing
    import socket
    import cascade.shm.api as api
    import cascade.shm.server as server
    port = 20000 + (os.getpid() % 20000)
    pref = f"v17{os.getpid() % 100000}"
    ctx = multiprocessing.get_context("fork")
    p = ctx.Process(target=server.entrypoint, kwargs=dict(port=port, capacity=4096, shm_pref=pref))
    p.start()
    try:
        def rpc(m, timeout=2.0):
            s = socket.socket(socket.AF_INET, socket.SOCK_DGRAM)
            s.settimeout(timeout)
            s.connect(("localhost", port))
            s.send(api.ser(m))
            try:
                return api.deser(s.recv(1024))
            finally:
                s.close()
        # wait for the server
        import time
        for _ in range(100):
            try:
                rpc(api.StatusInquiry(), 0.2)
                break
            except Exception:  # noqa: BLE001
                time.sleep(0.05)
        seed, shard = spec["seed"], spec["shard"]
        for i in range(spec["n"]):
            if col.out_of_time() or not p.is_alive():
                break
            if not col.want(i):
                continue
            rng = case_rng(seed, shard, i)
            key = "".join(rng.choice(string.ascii_letters + string.digits) for _ in range(rng.choice([1, 8, 24, 100])))
            size = rng.choice([1, 2, 7, 64, 1000])
            deser_fun = rand_str(rng, allow_nonascii=False)[:100]
            col.case(shape=("wire", len(key), size, len(deser_fun)), sample={"encoder": "shm wire", "key": key, "size": size})
            try:
                r = rpc(api.AllocateRequest(key=key, l=size, deser_fun=deser_fun))
                if not isinstance(r, api.AllocateResponse) or r.error:
                    col.observe("wire_allocate_refused")
                    continue
                from multiprocessing.shared_memory import SharedMemory
                shm = SharedMemory(r.shmid, create=True, size=size)
                payload = bytes(rng.getrandbits(8) for _ in range(size))
                shm.buf[:size] = payload
                shm.close()
                rpc(api.CloseCallback(key=key, rdid=""))
                g = rpc(api.GetRequest(key=key))
                col.count("wire_roundtrips")
                if not isinstance(g, api.GetResponse) or g.error or g.l != size or g.deser_fun != deser_fun or g.shmid != r.shmid:
                    col.violation("shm-wire-get-differs", f"allocate({key!r},{size},{deser_fun!r}) then get -> {g!r}", {"key": key, "size": size, "deser_fun": deser_fun, "got": repr(g)}, i)
                else:
                    shm = SharedMemory(g.shmid, create=False)
                    if bytes(shm.buf[:size]) != payload:
                        col.violation("shm-wire-bytes-differ", "bytes differ through server", None, i)
                    shm.close()
                rpc(api.CloseCallback(key=key, rdid=g.rdid))
                st = rpc(api.DatasetStatusRequest(key=key))
                if not isinstance(st, api.DatasetStatusResponse) or st.status != api.DatasetStatus.ready:
                    col.violation("shm-wire-status-differs", f"status of a written dataset answered {st!r}", None, i)
                rpc(api.PurgeRequest(key=key))
                st = rpc(api.DatasetStatusRequest(key=key))
                if not isinstance(st, api.DatasetStatusResponse) or not isinstance(st.status, api.DatasetStatus):
                    col.violation("shm-wire-status-differs", f"status of a purged dataset answered {st!r}", None, i)
                elif st.status != api.DatasetStatus.not_present:
                    # the store skips the purge of a dataset that is being paged out or is on disk (capacity reached after many
                    # round trips): behaviour of the store (C08/C09), not of the encoding -- the reply itself is well formed
                    col.observe("wire_purge_deferred_by_the_store_dataset_still_present")
                fs = rpc(api.FreeSpaceRequest())
                if not isinstance(fs, api.FreeSpaceResponse):
                    col.violation("shm-wire-freespace-type", repr(fs), None, i)
            except Exception as e:  # noqa: BLE001
                col.not_reached(f"shm wire harness: {e!r}")
                break
        if not p.is_alive():
            col.violation("shm-wire-server-died", "the shm server process died while serving round-trip requests", None, None)
        try:
            rpc(api.ShutdownCommand(), 1.0)
        except Exception:  # noqa: BLE001
            pass
    finally:
        p.join(3)
        if p.is_alive():
            p.kill()
            p.join()
        import glob
        for f in glob.glob(f"/dev/shm/{pref}*"):
            try:
                os.unlink(f)
            except OSError:
                pass


# ----------------------------------------------------------------------------------------------
# executor messages and framing
# ----------------------------------------------------------------------------------------------

def gen_ident(rng) -> str:
    return rng.choice(["", "h0", "w1", "t", "a.b", "x:y", "task with space", "ünï", "0", "n" * 64,
                       "".join(rng.choice(string.printable) for _ in range(rng.randint(1, 12)))])


def gen_msg(msg, core, rng, value_len=None):
    DatasetId, WorkerId = core.DatasetId, core.WorkerId
    ds = lambda: DatasetId(gen_ident(rng), gen_ident(rng))  # noqa: E731
    wk = lambda: WorkerId(gen_ident(rng), gen_ident(rng))  # noqa: E731
    addr = lambda: rng.choice(["tcp://localhost:1", "ipc:///tmp/x.socket", "", "tcp://10.0.0.1:65535"])  # noqa: E731
    idx = lambda: rng.choice(INT_GRID[:10] + [2**63 - 1, 2**70])  # noqa: E731
    kind = rng.choice(["Syn", "Ack", "TaskSequence", "TaskFailure", "DatasetPublished", "DatasetPurge",
                       "DatasetTransmitCommand", "DatasetTransmitPayload", "ExecutorFailure", "ExecutorExit",
                       "ExecutorRegistration", "ExecutorShutdown", "DatasetTransmitFailure", "WorkerReady",
                       "WorkerShutdown"])
    if kind == "Syn":
        m = msg.Syn(idx(), addr())
    elif kind == "Ack":
        m = msg.Ack(idx())
    elif kind == "TaskSequence":
        m = msg.TaskSequence(wk(), [gen_ident(rng) for _ in range(rng.randint(0, 5))], {ds() for _ in range(rng.randint(0, 5))})
    elif kind == "TaskFailure":
        m = msg.TaskFailure(wk(), rng.choice([None, gen_ident(rng)]), gen_ident(rng) * rng.randint(0, 50))
    elif kind == "DatasetPublished":
        m = msg.DatasetPublished(rng.choice([wk(), gen_ident(rng)]), ds(), rng.choice([None, idx()]))
    elif kind == "DatasetPurge":
        m = msg.DatasetPurge(ds())
    elif kind == "DatasetTransmitCommand":
        m = msg.DatasetTransmitCommand(gen_ident(rng), gen_ident(rng), addr(), ds(), idx())
    elif kind == "DatasetTransmitPayload":
        n = value_len if value_len is not None else rng.choice([0, 1, 2, 100, 4096, 65537])
        m = msg.DatasetTransmitPayload(
            msg.DatasetTransmitPayloadHeader(addr(), idx(), ds(), rng.choice(["cloudpickle.loads", "", "a.b.c", gen_ident(rng)])),
            rng.randbytes(n))
    elif kind == "ExecutorFailure":
        m = msg.ExecutorFailure(gen_ident(rng), gen_ident(rng))
    elif kind == "ExecutorExit":
        m = msg.ExecutorExit(gen_ident(rng))
    elif kind == "ExecutorRegistration":
        m = msg.ExecutorRegistration(gen_ident(rng), addr(), addr(),
                                     [msg.Worker(wk(), rng.randint(0, 64), rng.randint(0, 8), rng.choice(INT_GRID)) for _ in range(rng.randint(0, 4))])
    elif kind == "ExecutorShutdown":
        m = msg.ExecutorShutdown()
    elif kind == "DatasetTransmitFailure":
        m = msg.DatasetTransmitFailure(gen_ident(rng), gen_ident(rng))
    elif kind == "WorkerReady":
        m = msg.WorkerReady(wk())
    else:
        m = msg.WorkerShutdown()
    return m


class FakeSock:
    def __init__(self):
        self.frames = None

    def recv_multipart(self):
        f, self.frames = self.frames, None
        return f


class FakePoller:
    def __init__(self, sock):
        self.sock = sock

    def poll(self, timeout=None):
        return [(self.sock, 1)] if self.sock.frames is not None else []


class _FakeZmq:
    """Stands in for the `zmq` module while the real `Listener.__init__` runs, so that every attribute the constructor sets
    (today `acked`; tomorrow whatever a refactor adds) exists on the object the check drives."""
    def __init__(self, sock):
        self._sock = sock

    def Poller(self):
        return _RegPoller(self._sock)

    def __getattr__(self, name):
        import zmq
        return getattr(zmq, name)


class _RegPoller(FakePoller):
    def register(self, socket, flags=0):
        pass


class _FakeCtx:
    def __init__(self, sock):
        self._sock = sock

    def socket(self, kind):
        return self._sock


def fake_listener(comms):
    """A real Listener, built by its real constructor, on an in-memory socket."""
    sock = FakeSock()
    sock.bind = lambda address: None
    saved = (comms.zmq, comms.get_context)
    comms.zmq, comms.get_context = _FakeZmq(sock), (lambda: _FakeCtx(sock))
    try:
        lst = comms.Listener("fake")
    finally:
        comms.zmq, comms.get_context = saved
    lst.socket, lst.poller = sock, FakePoller(sock)
    return lst, sock


def run_msg(spec, col: Collector):
    import pickle
    import cascade.executor.comms as comms
    import cascade.executor.msg as msg
    import cascade.executor.serde as serde
    import cascade.low.core as core
    seed, shard = spec["seed"], spec["shard"]
    acks = []
    real_callback = comms.callback
    comms.callback = lambda address, m: acks.append((address, m))
    try:
        lst, sock = fake_listener(comms)
        syn_idx = 0
        for i in range(spec["n"]):
            if col.out_of_time():
                break
            if not col.want(i):
                continue
            rng = case_rng(seed, shard, i)
            m = gen_msg(msg, core, rng)
            kind = type(m).__name__
            col.case(shape=("msg", kind, len(getattr(m, "value", b"")) if kind == "DatasetTransmitPayload" else repr(m).count("None")),
                     nontrivial=bool(dataclasses.fields(m)), sample={"encoder": "executor.serde", "message": repr(m)[:300]})
            try:
                back = serde.des_message(serde.ser_message(m))
                col.count("msg_roundtrips")
                if back != m or type(back) is not type(m):
                    col.violation(f"msg-roundtrip-differs:{kind}", f"{back!r} != {m!r}", {"message": repr(m)}, i)
            except Exception as e:  # noqa: BLE001
                col.violation(f"msg-roundtrip-raises:{kind}", f"{e!r} on {m!r}", {"message": repr(m)}, i)
            # --- framing, the way the two senders build frames (comms.send_data / ReliableSender.send) ---
            if isinstance(m, (msg.Syn, msg.Ack)):
                continue
            syn = msg.Syn(syn_idx, "ack://harness")
            syn_idx += 1
            if isinstance(m, msg.DatasetTransmitPayload):
                frame_sets = [
                    ("send_data", [serde.ser_message(syn), pickle.dumps(m.header), m.value]),
                    ("plain_payload", [pickle.dumps(m.header), m.value]),
                ]
            else:
                frame_sets = [("reliable", [serde.ser_message(syn), serde.ser_message(m)]),
                              ("callback", [serde.ser_message(m)])]
            for fname, frames in frame_sets:
                if fname in ("send_data", "reliable") and syn in lst.acked:
                    continue
                sock.frames = list(frames)
                n_acks = len(acks)
                try:
                    got = lst._recv_one(0)
                except Exception as e:  # noqa: BLE001
                    col.violation(f"frames-raise:{fname}:{kind}", f"Listener._recv_one raised {e!r} on well-formed {fname} frames", {"message": repr(m)[:300]}, i)
                    continue
                col.count("frame_roundtrips")
                col.count(f"frame_roundtrips:{fname}")
                if got != m or type(got) is not type(m):
                    col.violation(f"frames-differ:{fname}:{kind}", f"received {got!r:.300} for sent {m!r:.300}", {"message": repr(m)[:300]}, i)
                if fname in ("send_data", "reliable"):
                    if acks[n_acks:] != [("ack://harness", msg.Ack(idx=syn.idx))]:
                        col.violation(f"frames-ack-wrong:{fname}", f"acks sent: {acks[n_acks:]!r}", None, i)
    finally:
        comms.callback = real_callback


def run_zmqframes(spec, col: Collector):
    """Real zmq: real send_data / ReliableSender.send against a real Listener over ipc."""
    import cascade.executor.comms as comms
    import cascade.executor.msg as msg
    import cascade.low.core as core
    seed, shard = spec["seed"], spec["shard"]
    tmp = tempfile.mkdtemp(prefix="v17z")
    try:
        addr = f"ipc://{tmp}/l"
        ack_addr = f"ipc://{tmp}/a"
        lst = comms.Listener(addr)
        ack_lst = comms.Listener(ack_addr)
        sender = comms.ReliableSender(ack_addr, 100000)
        sender.add_host("h", addr)
        for i in range(spec["n"]):
            if col.out_of_time():
                break
            if not col.want(i):
                continue
            rng = case_rng(seed, shard, i)
            m = gen_msg(msg, core, rng, value_len=rng.choice([0, 1, 1000, 1 << 20, 4 << 20]))
            if i in (3, 4):
                # two very large dataset payloads per run: powers of two and their multiples are where any chunking of the value would break
                big = (32 << 20) if i == 3 else rng.choice([16 << 20, (16 << 20) + 1, 48 << 20, 64 << 20])
                m = msg.DatasetTransmitPayload(msg.DatasetTransmitPayloadHeader(ack_addr, 7, core.DatasetId("big", "0"), "cloudpickle.loads"), bytes(bytearray(rng.randbytes(1 << 16)) * (big >> 16)) + b"x" * (big & 0xFFFF))
                col.count("zmq_very_large_payloads")
            if isinstance(m, (msg.Syn, msg.Ack)):
                continue
            kind = type(m).__name__
            col.case(shape=("zmq", kind, len(getattr(m, "value", b""))), sample={"encoder": "zmq frames", "kind": kind})
            if isinstance(m, msg.DatasetTransmitPayload):
                comms.send_data(addr, m, msg.Syn(1_000_000 + i, ack_addr))
                expect_ack = 1_000_000 + i
            else:
                expect_ack = sender.idx
                sender.send("h", m)
            # nothing is lost over ipc: an empty poll only says that the machine has not got round to it yet. Wall time is
            # never a verdict: keep polling under a generous watchdog, and a message that has still not arrived is excluded
            # and counted, not reported
            got, waited = lst.recv_messages(5000), 1
            while not got and waited < 24:
                got, waited = lst.recv_messages(5000), waited + 1
            if not got:
                col.count("zmq_excluded_nothing_arrived_in_120s")
                break
            col.count("zmq_frame_roundtrips")
            if got != [m]:
                col.violation(f"zmq-frames-differ:{kind}", f"received {[(type(g).__name__, len(getattr(g, 'value', b''))) for g in got]} for a {kind} with a value of {len(getattr(m, 'value', b''))} bytes"
                              if len(getattr(m, "value", b"")) > 10000 else f"received {got!r:.300} for {m!r:.300}", None, i)
            a, waited = ack_lst.recv_messages(5000), 1
            while not a and waited < 24:
                a, waited = ack_lst.recv_messages(5000), waited + 1
            if not a:
                col.count("zmq_excluded_nothing_arrived_in_120s")
                break
            if a != [msg.Ack(expect_ack)]:
                col.violation(f"zmq-ack-differs:{kind}", f"acks {a!r}", None, i)
    finally:
        import shutil
        shutil.rmtree(tmp, ignore_errors=True)


# ----------------------------------------------------------------------------------------------
# controller.report
# ----------------------------------------------------------------------------------------------

def run_report(spec, col: Collector):
    import cascade.controller.report as report
    import cascade.low.core as core
    seed, shard = spec["seed"], spec["shard"]
    for i in range(spec["n"]):
        if col.out_of_time():
            break
        if not col.want(i):
            continue
        rng = case_rng(seed, shard, i)
        results = [(core.DatasetId(gen_ident(rng), gen_ident(rng)), rng.randbytes(rng.choice([0, 1, 10, 5000])))
                   for _ in range(rng.choice([0, 0, 1, 3]))]
        r = report.ControllerReport(gen_ident(rng), rng.choice([None, "0.00", "100.00", "Shutdown", gen_ident(rng)]),
                                    rng.choice(INT_GRID + [2**63 - 1, -1]), results)
        col.case(shape=("report", r.current_status is None, len(results), int_class(r.timestamp)),
                 sample={"encoder": "controller.report", "report": repr(r)[:300]})
        try:
            back = report.deserialize(report.serialize(r))
            col.count("report_roundtrips")
            if back != r:
                col.violation("report-roundtrip-differs", f"{back!r:.300} != {r!r:.300}", None, i)
        except Exception as e:  # noqa: BLE001
            col.violation("report-roundtrip-raises", repr(e), {"report": repr(r)[:300]}, i)
    # anything that is not a report must be rejected, not returned
    import pickle
    for bad in (pickle.dumps(("x", 1)), pickle.dumps(None), pickle.dumps({"job_id": "a"})):
        try:
            got = report.deserialize(bad)
            col.violation("report-foreign-object-accepted", f"deserialize returned {got!r}", None, None)
        except Exception:  # noqa: BLE001
            col.count("report_rejections")


# ----------------------------------------------------------------------------------------------
# JobInstance
# ----------------------------------------------------------------------------------------------

def json_value(rng, depth=0):
    k = rng.random()
    if depth > 2 or k < 0.5:
        return rng.choice([None, True, False, 0, 1, -1, 2**31, 2**53, 1.5, -0.25, 1e300, "", "s", "ü", "a b"])
    if k < 0.75:
        return [json_value(rng, depth + 1) for _ in range(rng.randint(0, 3))]
    return {rng.choice(["a", "b", "c d", ""]): json_value(rng, depth + 1) for _ in range(rng.randint(0, 3))}


def gen_job(core, rng):
    n = rng.randint(0, 6)
    tasks = {}
    names = []
    pool = ["t", "a.b", "x:y", "with space", "ü", "0", "1", "__NO_OUTPUT__"]
    for i in range(n):
        nm = rng.choice(pool) + str(i) if rng.random() < 0.8 else f"task{i}"
        names.append(nm)
        nout = rng.choice([1, 1, 2, 3, 12])
        outs = {str(j) if rng.random() < 0.7 else rng.choice(["out", "a.b", "ü", ""]) + str(j): rng.choice(["Any", "int", "numpy.ndarray"]) for j in range(nout)}
        defn = core.TaskDefinition(
            entrypoint=rng.choice(["", "math.sqrt", "a.b.c"]),
            func=rng.choice([None, core.TaskDefinition.func_enc(len)]),
            environment=rng.choice([[], ["numpy"], ["a", "b"]]),
            input_schema={rng.choice(["x", "y", "kw", "ü"]): rng.choice(["Any", "int"]) for _ in range(rng.randint(0, 3))},
            output_schema=outs,
            needs_gpu=rng.random() < 0.2,
        )
        tasks[nm] = core.TaskInstance(
            definition=defn,
            static_input_kw={rng.choice(["x", "y", "k"]): json_value(rng) for _ in range(rng.randint(0, 3))},
            static_input_ps={str(rng.randint(0, 4)): json_value(rng) for _ in range(rng.randint(0, 3))},
        )
    edges = []
    for _ in range(rng.randint(0, 8) if n >= 2 else 0):
        a, b = rng.sample(names, 2)
        out = rng.choice(list(tasks[a].definition.output_schema))
        if rng.random() < 0.5:
            edges.append(core.Task2TaskEdge(source=core.DatasetId(a, out), sink_task=b, sink_input_kw=rng.choice(["x", "y", "ü"]), sink_input_ps=None))
        else:
            edges.append(core.Task2TaskEdge(source=core.DatasetId(a, out), sink_task=b, sink_input_kw=None, sink_input_ps=rng.randint(0, 5)))
    all_ds = [core.DatasetId(t, o) for t in names for o in tasks[t].definition.output_schema]
    ext = rng.sample(all_ds, rng.randint(0, len(all_ds))) if all_ds else []
    serdes = {rng.choice(["numpy.ndarray", "a.B"]): ("m.ser", "m.des") for _ in range(rng.choice([0, 0, 1, 2]))}
    if rng.random() < 0.4:
        # the way JobBuilder.build / graph2job users fill a job: constructed from tasks and edges, the rest filled in place
        # (such fields are not in pydantic's model_fields_set; an encoder must not care how the object was built)
        job = core.JobInstance(tasks=tasks, edges=edges)
        job.ext_outputs.extend(ext)
        job.serdes.update(serdes)
        return job
    return core.JobInstance(tasks=tasks, edges=edges, serdes=serdes, ext_outputs=ext)


def run_job(spec, col: Collector):
    import orjson
    import cascade.low.core as core
    seed, shard = spec["seed"], spec["shard"]
    for i in range(spec["n"]):
        if col.out_of_time():
            break
        if not col.want(i):
            continue
        rng = case_rng(seed, shard, i)
        job = gen_job(core, rng)
        col.case(shape=("job", len(job.tasks), len(job.edges), len(job.ext_outputs), len(job.serdes),
                        sum(1 for e in job.edges if e.sink_input_kw is not None)),
                 nontrivial=len(job.tasks) >= 2 and len(job.edges) >= 1,
                 sample={"encoder": "JobInstance json", "tasks": list(job.tasks), "edges": len(job.edges), "ext_outputs": [repr(d) for d in job.ext_outputs][:6]})
        for path, dump in (("dict+orjson", lambda j: orjson.dumps(j.dict())),
                           ("model_dump_json", lambda j: orjson.dumps(j.model_dump(mode="json")))):
            try:
                back = core.JobInstance(**orjson.loads(dump(job)))
            except Exception as e:  # noqa: BLE001
                col.violation(f"job-roundtrip-raises:{path}:{type(e).__name__}", f"{e!r:.400}", {"tasks": list(job.tasks)}, i)
                continue
            col.count("job_roundtrips")
            if back != job:
                col.violation(f"job-roundtrip-differs:{path}", "JobInstance read back from JSON differs", {"orig": repr(job)[:600], "back": repr(back)[:600]}, i)
            elif back.model_dump() != job.model_dump():
                col.violation(f"job-roundtrip-dump-differs:{path}", "model_dump differs after round trip", None, i)


# ----------------------------------------------------------------------------------------------
# gateway
# ----------------------------------------------------------------------------------------------

def run_gateway(spec, col: Collector):
    import zmq
    import cascade.gateway.api as gapi
    import cascade.gateway.client as gclient
    import cascade.low.core as core
    seed, shard = spec["seed"], spec["shard"]
    tmp = tempfile.mkdtemp(prefix="v17g")
    url = f"ipc://{tmp}/gw"
    ctx = zmq.Context()
    rep = ctx.socket(zmq.REP)
    rep.bind(url)
    box = {}
    stop = threading.Event()

    def server():
        poller = zmq.Poller()
        poller.register(rep, zmq.POLLIN)
        while not stop.is_set():
            if not poller.poll(50):
                continue
            raw = rep.recv()
            try:
                box["parsed"] = gclient.parse_request(raw)
                box["parse_error"] = None
            except Exception as e:  # noqa: BLE001
                box["parsed"], box["parse_error"] = None, e
            try:
                out = gclient.serialize_response(box["response"])
                box["ser_error"] = None
            except Exception as e:  # noqa: BLE001
                out, box["ser_error"] = b'{"clazz": "BrokenResponse"}', e
            rep.send(out)

    th = threading.Thread(target=server, daemon=True)
    th.start()
    try:
        for i in range(spec["n"]):
            if col.out_of_time():
                break
            if not col.want(i):
                continue
            rng = case_rng(seed, shard, i)
            kind = rng.choice(["Submit", "Progress", "Result", "Shutdown"])
            ids = [rng.choice(["", "j1", "8d3b9a3e-1c1e-4f3c-9df0-000000000001", "ü", "a b"]) for _ in range(rng.randint(0, 4))]
            if kind == "Submit":
                ji = gen_job(core, rng) if rng.random() < 0.6 else None
                req = gapi.SubmitJobRequest(job=gapi.JobSpec(
                    benchmark_name=rng.choice([None, "generators", ""]),
                    envvars={rng.choice(["A", "B", "ü"]): rng.choice(["", "1", "x y"]) for _ in range(rng.randint(0, 3))},
                    job_instance=ji, workers_per_host=rng.choice([0, 1, 8, 2**31]), hosts=rng.choice([1, 2, 100]),
                    use_slurm=rng.random() < 0.5))
                resp = gapi.SubmitJobResponse(job_id=rng.choice([None, "", "j1", "ü"]), error=rng.choice([None, "", "boom"]))
            elif kind == "Progress":
                req = gapi.JobProgressRequest(job_ids=ids)
                resp = gapi.JobProgressResponse(progresses={j: rng.choice(["0.00", "55.55", "100.00", "Shutdown", ""]) for j in ids},
                                                error=rng.choice([None, "KeyError('x')"]))
            elif kind == "Result":
                req = gapi.ResultRetrievalRequest(job_id=rng.choice(ids + ["j"]), dataset_id=core.DatasetId(gen_ident(rng), gen_ident(rng)))
                import base64
                resp = gapi.ResultRetrievalResponse(result=rng.choice([None, "", base64.b64encode(rng.randbytes(rng.choice([0, 1, 100, 10000]))).decode()]),
                                                    error=rng.choice([None, "e"]))
            else:
                req = gapi.ShutdownRequest()
                resp = gapi.ShutdownResponse(error=rng.choice([None, "", "e"]))
            col.case(shape=("gw", kind, repr(req).count("None"), len(ids)), nontrivial=kind != "Shutdown",
                     sample={"encoder": "gateway", "request": repr(req)[:300], "response": repr(resp)[:200]})
            box["response"] = resp
            try:
                got = gclient.request_response(req, url, timeout_ms=5000)
            except Exception as e:  # noqa: BLE001
                if box.get("parse_error") is not None:
                    col.violation(f"gateway-request-not-parsed:{kind}", f"parse_request failed: {box['parse_error']!r:.300}", {"request": repr(req)[:400]}, i)
                elif box.get("ser_error") is not None:
                    col.violation(f"gateway-response-not-serialised:{kind}", f"{box['ser_error']!r:.300}", {"response": repr(resp)[:300]}, i)
                else:
                    col.violation(f"gateway-roundtrip-raises:{kind}", f"{e!r:.300}", {"request": repr(req)[:400]}, i)
                continue
            col.count("gateway_roundtrips")
            if box["parse_error"] is not None:
                col.violation(f"gateway-request-not-parsed:{kind}", f"{box['parse_error']!r:.300}", {"request": repr(req)[:400]}, i)
            elif box["parsed"] != req or type(box["parsed"]) is not type(req):
                col.violation(f"gateway-request-differs:{kind}", f"{box['parsed']!r:.300} != {req!r:.300}", None, i)
            if got != resp or type(got) is not type(resp):
                col.violation(f"gateway-response-differs:{kind}", f"{got!r:.300} != {resp!r:.300}", None, i)
        # a response of the wrong class must be rejected by the client's parser
        box["response"] = gapi.ShutdownResponse(error=None)
        try:
            got = gclient.request_response(gapi.JobProgressRequest(job_ids=[]), url, timeout_ms=5000)
            col.violation("gateway-mismatched-response-accepted", f"client returned {got!r} for a JobProgressRequest", None, None)
        except ValueError:
            col.count("gateway_rejections")
    finally:
        stop.set()
        th.join(2)
        rep.close(0)
        import shutil
        shutil.rmtree(tmp, ignore_errors=True)


RUNNERS = {"shm": run_shm, "shmwire": run_shmwire, "msg": run_msg, "zmqframes": run_zmqframes,
           "report": run_report, "job": run_job, "gateway": run_gateway}


def run_shard(spec, col: Collector):
    RUNNERS[spec["kind"]](spec, col)


def plan(tier, seed, scale=1.0):
    q = tier == "quick"
    k = scale
    specs = []

    def add(kind, n, copies=1, **kw):
        for c in range(copies):
            specs.append(dict(kind=kind, shard=f"{kind}{c}", n=int(n * k), budget_s=40 if q else 500,
                              timeout_s=120 if q else 900, hash_seed=(seed * 31 + c) % 4294967295, **kw))
    if q:
        add("shm", 6000, 2)
        add("msg", 2500, 2)
        add("zmqframes", 60)
        add("report", 1500)
        add("job", 500, 2)
        add("gateway", 300, 2)
        add("shmwire", 60)
    else:
        add("shm", 500000, 6)
        add("msg", 200000, 4)
        add("zmqframes", 6000)
        add("report", 250000)
        add("job", 40000, 3)
        add("gateway", 30000, 2)
        add("shmwire", 80000)
    for i, s in enumerate(specs):
        if s["kind"] == "shm" and not s["shard"].endswith("0"):
            s["grid"] = False
    return specs
