"""C16 -- the preschedule is a faithful structural summary of the job DAG (E1's job generator + networkx reference)."""

from __future__ import annotations

from vlib.common.core import Collector, case_rng, digest, guarded
from vlib.jobgen import build_job, gen_jobspec, job_shape

ID = "C16"
LEVEL = "exploration"
MANIFEST = dict(
    engine="E1-jobgen+networkx", engine_path="vlib/jobgen.py",
    kind="generated job DAGs -> real scheduler.graph.precompute under an icontract post-condition evaluated against a networkx reference",
    technique="runtime contract (icontract.ensure on the real precompute) whose condition recomputes components, sources, edge maps, depth, value and the nearest-common-descendant distance with an independent networkx reference on every generated job, and again after the job's edge list was edited in place; plus, at a size no full precompute can be afforded at, the real decompose on components of 1500-4000 tasks (chains, ladders, zig-zags) against union-find",
    text="Every generated job (chains, diamonds, layered/triangular DAGs, several components, isolated tasks, multi-edges, multi-output tasks, up to 60 tasks) is passed to the real precompute; the post-condition compares every field of the Preschedule with the reference. Held = all post-condition evaluations true; zero evaluations = inconclusive.",
    note="python fallback of nearest_common_descendant is what runs (coptrs is not installed); if it were, its answers would be compared the same way.",
)
RULE = (
    "case = one generated job DAG (0-60 tasks; shapes layered/triangular/chain/diamond/wide/components/isolated/fan-in/empty; multi-edges between "
    "the same pair; 1-13 outputs per task); non-trivial = >=3 tasks and >=2 edges; distinct = digest of (shape class, #tasks, #edges, in-degree multiset, ...)"
)
ASSUMPTIONS = ["networkx weakly_connected_components / shortest_path_length / dag_longest_path_length are the oracle", "jobs are well formed: at most one edge per (sink task, parameter)"]
REQUIRED_COUNTERS = ["postcondition_evaluations", "components_checked", "distance_pairs_checked", "large_partition_cases", "jobs_resummarised_after_in_place_edit"]

_diag: dict = {}


class PostBroken(Exception):
    pass


def post_ok(job_instance, result) -> bool:
    """Named condition for icontract.ensure (argument names match precompute's)."""
    import networkx as nx
    _diag.clear()
    _diag["evaluations"] = _diag.get("evaluations", 0) + 1
    job, pre = job_instance, result
    G = nx.DiGraph()
    G.add_nodes_from(job.tasks)
    for e in job.edges:
        G.add_edge(e.source.task, e.sink_task)

    def fail(mech, msg):
        _diag["mech"], _diag["msg"] = mech, msg
        return False

    ref_comps = {frozenset(c) for c in nx.weakly_connected_components(G)}
    got_comps = [frozenset(c.nodes) for c in pre.components]
    if any(len(c.nodes) != len(set(c.nodes)) for c in pre.components):
        return fail("component-lists-task-twice", "a component lists a task twice")
    if sorted(map(sorted, got_comps)) != sorted(map(sorted, ref_comps)) or len(got_comps) != len(ref_comps):
        return fail("components-differ", f"components {sorted(map(sorted, got_comps))[:4]} != weakly connected components {sorted(map(sorted, ref_comps))[:4]}")
    weights = [c.weight() for c in pre.components]
    if weights != sorted(weights, reverse=True):
        return fail("components-not-heaviest-first", f"weights {weights}")
    # edge maps
    ref_edge_o: dict = {}
    ref_edge_i: dict = {}
    for e in job.edges:
        ref_edge_o.setdefault(e.source, set()).add(e.sink_task)
        ref_edge_i.setdefault(e.sink_task, set()).add(e.source)
    if {k: v for k, v in pre.edge_o.items() if v} != ref_edge_o:
        return fail("edge_o-differs", "consumers recorded per dataset differ from the job's edges")
    if {k: v for k, v in pre.edge_i.items() if v} != ref_edge_i:
        return fail("edge_i-differs", "inputs recorded per task differ from the job's edges")
    from cascade.low.core import DatasetId
    ref_task_o = {t: {DatasetId(t, o) for o in inst.definition.output_schema} for t, inst in job.tasks.items()}
    if dict(pre.task_o) != ref_task_o:
        return fail("task_o-differs", "outputs recorded per task differ from the output schemas")
    npairs = 0
    for c in pre.components:
        nodes = set(c.nodes)
        sub = G.subgraph(nodes)
        if sorted(c.sources) != sorted(n for n in nodes if G.in_degree(n) == 0) or len(c.sources) != len(set(c.sources)):
            return fail("sources-differ", f"sources {sorted(c.sources)[:6]} != tasks without inputs")
        depth = nx.dag_longest_path_length(sub) + 1
        if c.depth != depth:
            return fail("depth-differs", f"depth {c.depth} != {depth} nodes on the longest path")
        sinks = [n for n in nodes if G.out_degree(n) == 0]
        dist = {a: dict(nx.single_source_shortest_path_length(sub, a)) for a in nodes}
        for t in nodes:
            d = min(dist[t][s] for s in sinks if s in dist[t])
            if c.value.get(t) != c.depth - d:
                return fail("value-differs", f"value[{t}]={c.value.get(t)} != depth {c.depth} - distance to nearest sink {d}")
        if set(c.value) != nodes:
            return fail("value-keys-differ", "value is not defined exactly on the component's tasks")
        for a in nodes:
            for b in nodes:
                if a == b:
                    exp = 0
                else:
                    common = set(dist[a]) & set(dist[b])
                    exp = min((max(dist[a][x], dist[b][x]) for x in common), default=c.depth)
                try:
                    got = c.distance_matrix[a][b]
                except KeyError:
                    return fail("distance-missing", f"distance_matrix[{a}][{b}] missing")
                if got != exp:
                    return fail("distance-differs", f"distance[{a}][{b}]={got} != {exp}")
                npairs += 1
    _diag["pairs"] = npairs
    _diag["components"] = len(pre.components)
    return True


def one_case(col: Collector, rng, index: int, checked, max_tasks: int):
    js = gen_jobspec(rng, max_tasks=max_tasks, multi_edges=rng.random() < 0.4, big_outputs=True)
    job = build_job(js)
    shape = job_shape(js)
    col.case(shape=digest(shape), nontrivial=len(js["order"]) >= 3 and len(js["edges"]) >= 2,
             sample={"shape": js["shape"], "tasks": {t: js["tasks"][t]["outputs"] for t in js["order"][:12]}, "edges": [list(map(str, e)) for e in js["edges"][:20]]})
    wit = {"shape": js["shape"], "tasks": {t: js["tasks"][t]["outputs"] for t in js["order"]}, "edges": [list(map(str, e)) for e in js["edges"]]}
    try:
        checked(job)
    except PostBroken:
        col.count("postcondition_evaluations")
        col.violation(f"preschedule:{_diag.get('mech', 'unknown')}", _diag.get("msg", "post-condition false"), wit, index)
        return
    except Exception as e:  # noqa: BLE001
        col.violation(f"precompute-raises:{type(e).__name__}", f"{e!r:.300}", wit, index)
        return
    col.count("postcondition_evaluations")
    col.count("components_checked", _diag.get("components", 0))
    col.count("distance_pairs_checked", _diag.get("pairs", 0))
    # history: the same job object, its edge list edited in place (another output of the same producer, another position of the
    # same consumer, an edge dropped), summarised again -- the preschedule must describe the edges as they are NOW
    if job.edges and rng.random() < 0.25:
        from cascade.low.core import DatasetId, Task2TaskEdge
        for _ in range(rng.randint(1, 2)):
            i = rng.randrange(len(job.edges))
            e = job.edges[i]
            outs = list(job.tasks[e.source.task].definition.output_schema)
            kind = rng.choice(["other-output", "other-position", "drop"])
            if kind == "other-output" and len(outs) > 1:
                job.edges[i] = Task2TaskEdge(source=DatasetId(e.source.task, rng.choice([o for o in outs if o != e.source.output])), sink_task=e.sink_task,
                                             sink_input_kw=e.sink_input_kw, sink_input_ps=e.sink_input_ps)
            elif kind == "other-position":
                used = {x.sink_input_ps for x in job.edges if x.sink_task == e.sink_task and x.sink_input_ps is not None}
                job.edges[i] = Task2TaskEdge(source=e.source, sink_task=e.sink_task, sink_input_kw=None, sink_input_ps=max(used | {0}) + 1)
            elif kind == "drop" and len(job.edges) > 1:
                del job.edges[i]
        col.count("jobs_resummarised_after_in_place_edit")
        try:
            checked(job)
        except PostBroken:
            col.violation(f"preschedule:{_diag.get('mech', 'unknown')}:after-in-place-edit-of-edges", _diag.get("msg", "post-condition false") + " (the job's edge list had been edited in place and summarised again)", wit, index)
            return
        except Exception as e2:  # noqa: BLE001
            col.violation(f"precompute-raises:{type(e2).__name__}:after-in-place-edit-of-edges", f"{e2!r:.300}", wit, index)
            return
        col.count("postcondition_evaluations")


def one_large_partition(col: Collector, rng, index: int):
    """The partition clause at a size no full precompute can be afforded at (the pure-Python distance matrix is cubic): the real
    `decompose` on a job of 1500-4000 tasks made of a deep chain or ladder, a few side components and isolated tasks, fed with the
    edge maps `precompute` builds; compared with weakly connected components computed by union-find."""
    from collections import defaultdict
    import cascade.scheduler.graph as sgraph
    kind = rng.choice(["chain", "ladder", "zigzag"])
    n_main = rng.randint(1500, 4000)
    nodes, edges = [], []
    main = [f"m{i}" for i in range(n_main)]
    nodes += main
    if kind == "chain":
        edges += [(main[i], main[i + 1]) for i in range(n_main - 1)]
    elif kind == "ladder":
        edges += [(main[i], main[i + 2]) for i in range(n_main - 2)] + [(main[i], main[i + 1]) for i in range(0, n_main - 1, 2)]
    else:   # zigzag: a weakly connected path whose edges alternate direction (many sources, many sinks)
        edges += [(main[i], main[i + 1]) if i % 2 == 0 else (main[i + 1], main[i]) for i in range(n_main - 1)]
    for c in range(rng.randint(0, 3)):
        side = [f"s{c}x{i}" for i in range(rng.randint(1, 30))]
        nodes += side
        edges += [(side[rng.randrange(i)], side[i]) for i in range(1, len(side))]
    nodes += [f"iso{i}" for i in range(rng.randint(0, 3))]
    rng.shuffle(nodes)
    rng.shuffle(edges)
    edge_i, edge_o = defaultdict(set), defaultdict(set)
    for a, b in edges:
        edge_o[a].add(b)
        edge_i[b].add(a)
    col.count("large_partition_cases")
    col.case(shape=("large", kind, n_main // 500, len(nodes) - n_main), nontrivial=True, sample={"kind": kind, "tasks": len(nodes), "edges": len(edges)})
    wit = {"kind": kind, "main_component_tasks": n_main, "tasks": len(nodes)}
    try:
        got = list(sgraph.decompose(list(nodes), edge_i, edge_o))
    except BaseException as e:  # noqa: BLE001 -- RecursionError included
        if isinstance(e, (KeyboardInterrupt, SystemExit)):
            raise
        col.violation(f"decompose-raises-{type(e).__name__}:large-component", f"decompose raised {e!r:.120} on a valid DAG of {len(nodes)} tasks ({kind} of {n_main})", wit, index)
        return
    parent = {v: v for v in nodes}

    def find(v):
        while parent[v] != v:
            parent[v] = parent[parent[v]]
            v = parent[v]
        return v
    for a, b in edges:
        parent[find(a)] = find(b)
    want = defaultdict(set)
    for v in nodes:
        want[find(v)].add(v)
    want_sets = sorted(map(frozenset, want.values()), key=len)
    got_sets = sorted((frozenset(c) for c, _s in got), key=len)
    if sum(len(c) for c, _s in got) != len(nodes) or set(got_sets) != set(want_sets):
        col.violation("preschedule:components-differ:large-component", f"{len(got_sets)} components of sizes {[len(c) for c in got_sets][-4:]}, expected {[len(c) for c in want_sets][-4:]}", wit, index)
        return
    for comp, srcs in got:
        if set(srcs) != {v for v in comp if not edge_i[v]}:
            col.violation("preschedule:sources-differ:large-component", f"component of {len(comp)} tasks lists {len(srcs)} sources", wit, index)
            return
    col.count("components_checked", len(got))


def run_shard(spec, col: Collector):
    import logging
    import icontract
    import cascade.scheduler.graph as sgraph
    logging.getLogger("cascade").setLevel(logging.ERROR)
    checked = icontract.ensure(post_ok, error=PostBroken)(sgraph.precompute)
    seed, shard = spec["seed"], spec["shard"]
    for i in range(spec["n"]):
        if col.out_of_time():
            break
        if col.want(i):
            rng = case_rng(seed, shard, i)
            if i % 150 == 7:
                guarded(col, i, one_large_partition, col, rng, i)
                continue
            mt = rng.choice([6, 12, 20, spec["max_tasks"]])
            guarded(col, i, one_case, col, rng, i, checked, mt)


def plan(tier, seed, scale=1.0):
    q = tier == "quick"
    n, copies, mt = (350, 8, 40) if q else (9000, 16, 60)
    return [dict(shard=f"p{c}", n=int(n * scale), max_tasks=mt, budget_s=50 if q else 800, timeout_s=150 if q else 1300,
                 hash_seed=(seed * 29 + c) % 4294967295) for c in range(copies)]
