"""C19 -- a job accepted by the builder is well formed and carries the values given (engine E9).

Generated builder programs (callables synthesised from generated signatures, with_values, with_node,
with_edge with existing and dangling endpoints) run against the real cascade.low.builders; an independent
well-formedness oracle decides what build() must answer; digests of every earlier builder / built job
are re-checked after every later builder call (persistence).
"""

from __future__ import annotations

import copy

from vlib.common.core import Collector, case_rng, digest, guarded

ID = "C19"
LEVEL = "exploration"
MANIFEST = {'engine': 'E9-builder', 'kind': 'generated builder programs against an independent well-formedness oracle', 'technique': 'runtime oracle on generated builder programs: independent well-formedness classifier + value-binding model + persistence digests re-checked after every builder call', 'text': 'Each generated builder program (exec-synthesised callables, with_values, with_node, with_edge with existing/dangling endpoints) runs on the real builders; build() must return an Either, reject exactly what the independent classifier says dangles or conflicts, and an accepted job is re-checked edge by edge; earlier builders and jobs are digest-checked for mutation after every call.', 'note': 'Annotations restricted to builtins/absent; Any-vs-concrete pairs accepted either way; compatibility = issubclass.'}
RULE = (
    "case = one builder program: 1-5 tasks from exec-synthesised callables (positional-or-keyword, keyword-only, "
    "defaults, *args/**kwargs, annotations absent or int/float/str/bool/list/dict, return annotation likewise), "
    "random with_values calls, 0-8 edges with existing or dangling source task / output / sink task / parameter, "
    "positional or keyword; non-trivial = >=2 tasks and >=1 edge; distinct = digest of (signatures, bound-value "
    "shapes, edge endpoint classes)"
)
ASSUMPTIONS = [
    "annotations restricted to builtins and absent (the quantifier's domain); 'Any' vs concrete type pairs may be accepted or rejected but must not raise",
    "compatibility of two concrete builtin types is Python's issubclass (bool <= int)",
    "a description without dangling endpoints, type conflicts, open type pairs or ill-typed static values must be accepted",
]
REQUIRED_COUNTERS = ["builds", "builds_accepted", "builds_rejected", "with_values_calls", "persistence_checks"]

TYPES = [None, "int", "float", "str", "bool", "list", "dict"]
PYTYPES = {"int": int, "float": float, "str": str, "bool": bool, "list": list, "dict": dict}
VALUES = {"int": [0, 1, -5, 2**40], "float": [0.5, -1.25], "str": ["", "s", "input0"], "bool": [True, False],
          "list": [[], [1, 2]], "dict": [{}, {"a": 1}]}


def value_for(rng, t, wrong=False):
    if t is None:
        return rng.choice([None, 1, "x", (7, 8), [1], 2.5])
    if wrong:
        other = rng.choice([k for k in PYTYPES if not issubclass(PYTYPES[k], PYTYPES[t])])
        return rng.choice(VALUES[other])
    return copy.deepcopy(rng.choice(VALUES[t]))


def gen_signature(rng):
    """Returns (source text, meta) where meta describes the parameters."""
    params = []
    names = ["a", "b", "c", "x", "y", "kw", "value", "n"]
    rng.shuffle(names)
    n_pk = rng.randint(0, 3)
    n_ko = rng.randint(0, 2)
    have_default = False
    parts = []
    for i in range(n_pk):
        nm = names.pop()
        t = rng.choice(TYPES)
        d = None
        has_d = have_default or rng.random() < 0.3
        if has_d:
            have_default = True
            d = value_for(rng, t, wrong=rng.random() < 0.08)
        params.append(dict(name=nm, kind="pk", type=t, has_default=has_d, default=d))
        parts.append(nm + (f": {t}" if t else "") + (f" = {d!r}" if has_d else ""))
    var_args = rng.random() < 0.15
    if var_args:
        parts.append("*args")
    elif n_ko:
        parts.append("*")
    for i in range(n_ko):
        nm = names.pop()
        t = rng.choice(TYPES)
        has_d = rng.random() < 0.5
        d = value_for(rng, t, wrong=rng.random() < 0.08) if has_d else None
        params.append(dict(name=nm, kind="ko", type=t, has_default=has_d, default=d))
        parts.append(nm + (f": {t}" if t else "") + (f" = {d!r}" if has_d else ""))
    var_kw = rng.random() < 0.15
    if var_kw:
        parts.append("**kwargs")
    ret = rng.choice(TYPES)
    src = f"def f({', '.join(parts)})" + (f" -> {ret}" if ret else "") + ":\n    return None\n"
    return src, dict(params=params, ret=ret, var_args=var_args, var_kw=var_kw)


def make_callable(src):
    g = {"__name__": "__main__"}
    exec(src, g)  # noqa: S102 -- synthesised signature
    return g["f"]


def task_digest(t) -> str:
    return digest(t.definition.model_dump(), sorted((k, repr(v)) for k, v in t.static_input_kw.items()),
                  sorted((k, repr(v)) for k, v in t.static_input_ps.items()))


def builder_digest(b) -> str:
    return digest(sorted((k, task_digest(v)) for k, v in b.nodes.items()), [repr(e) for e in b.edges])


def job_digest(j) -> str:
    return digest(sorted((k, task_digest(v)) for k, v in j.tasks.items()), [repr(e) for e in j.edges],
                  [repr(d) for d in j.ext_outputs], sorted(j.serdes.items()))


def compatible(t1, t2):
    """None = open (left to the implementation)."""
    if t2 == "Any":
        return True
    if t1 == "Any":
        return None
    return t1 == t2 or issubclass(PYTYPES[t1], PYTYPES[t2])


def one_program(col: Collector, rng, index: int):
    import cascade.low.builders as builders
    import cascade.low.core as core
    from cascade.low.func import Either

    n_tasks = rng.randint(1, 5)
    metas, tasks = {}, {}
    snapshots = []  # (kind, object, digest)
    shape = []

    def recheck(where):
        for kind, obj, dg in snapshots:
            now = task_digest(obj) if kind == "task" else (builder_digest(obj) if kind == "builder" else job_digest(obj))
            col.count("persistence_checks")
            if now != dg:
                col.violation(f"persistence:{kind}-mutated-by:{where}", f"an earlier {kind} changed after {where}", {"where": where}, index)
                return

    # ---- tasks and with_values -------------------------------------------------------------------
    for ti in range(n_tasks):
        src, meta = gen_signature(rng)
        f = make_callable(src)
        tb = builders.TaskBuilder.from_callable(f)
        snapshots.append(("task", tb, task_digest(tb)))
        exp_kw = {p["name"]: p["default"] for p in meta["params"] if p["has_default"]}
        exp_ps = {}
        # schema as the builder documents it
        exp_schema = {p["name"]: (p["type"] or "Any") for p in meta["params"]}
        if tb.definition.input_schema != exp_schema:
            col.violation("from_callable-schema-differs", f"{src!r}: {tb.definition.input_schema} != {exp_schema}", {"src": src}, index)
        if {k: repr(v) for k, v in tb.static_input_kw.items()} != {k: repr(v) for k, v in exp_kw.items()}:
            col.violation("from_callable-defaults-differ", f"{src!r}: {tb.static_input_kw} != {exp_kw}", {"src": src}, index)
        ill_typed = set()
        for _ in range(rng.choice([0, 1, 1, 2])):
            n_pos = rng.choice([0, 0, 1, 2, 3])
            pos = [rng.choice([1, 2, "s", (7, 8), None, [3], "input0"]) for _ in range(n_pos)]
            kw = {}
            cands = [p for p in meta["params"]]
            for p in rng.sample(cands, min(len(cands), rng.choice([0, 1, 2]))):
                wrong = rng.random() < 0.1
                kw[p["name"]] = value_for(rng, p["type"], wrong=wrong and p["type"] is not None)
            if meta["var_kw"] and rng.random() < 0.5:
                kw["extra_kw"] = 1
            before = tb
            col.count("with_values_calls")
            shape.append(("wv", n_pos, len(kw), "extra_kw" in kw))
            try:
                tb2 = tb.with_values(*pos, **kw)
            except Exception as e:  # noqa: BLE001
                col.violation(f"with_values-raises:{type(e).__name__}:npos={min(n_pos, 2)}",
                              f"with_values(*{pos!r}, **{kw!r}) raised {e!r}", {"src": src, "pos": repr(pos), "kw": repr(kw)}, index)
                recheck("with_values(raised)")
                continue
            exp_ps = {**exp_ps, **{str(i): v for i, v in enumerate(pos)}}
            exp_kw = {**exp_kw, **kw}
            snapshots.append(("task", tb2, task_digest(tb2)))
            got_ps = {k: repr(v) for k, v in tb2.static_input_ps.items()}
            got_kw = {k: repr(v) for k, v in tb2.static_input_kw.items()}
            if got_ps != {k: repr(v) for k, v in exp_ps.items()}:
                col.violation(f"with_values-positional-wrong:npos={min(n_pos, 2)}",
                              f"with_values(*{pos!r}) recorded static_input_ps={tb2.static_input_ps!r}, expected {exp_ps!r}",
                              {"src": src, "pos": repr(pos)}, index)
                exp_ps = dict(tb2.static_input_ps)  # keep following what the builder holds
            if got_kw != {k: repr(v) for k, v in exp_kw.items()}:
                col.violation("with_values-keyword-wrong", f"static_input_kw={tb2.static_input_kw!r}, expected {exp_kw!r}", {"src": src, "kw": repr(kw)}, index)
                exp_kw = dict(tb2.static_input_kw)
            if tb2 is before:
                col.violation("with_values-returns-self", "with_values returned the same object", None, index)
            recheck("with_values")
            tb = tb2
        for k, v in tb.static_input_kw.items():
            t = exp_schema.get(k)
            if t is not None and t != "Any" and not isinstance(v, PYTYPES[t]):
                ill_typed.add(k)
        name = rng.choice(["t", "task", "a.b", "n"]) + str(ti)
        tasks[name] = tb
        metas[name] = dict(meta=meta, schema=exp_schema, ret=meta["ret"] or "Any", exp_kw=exp_kw, exp_ps=exp_ps,
                           ill_typed=ill_typed, kw_outside_schema=[k for k in tb.static_input_kw if k not in exp_schema])
        shape.append(("sig", tuple((p["kind"], p["type"], p["has_default"]) for p in meta["params"]), meta["ret"], meta["var_args"], meta["var_kw"]))

    # ---- job builder programme -----------------------------------------------------------------
    jb = builders.JobBuilder()
    snapshots.append(("builder", jb, builder_digest(jb)))
    names = list(tasks)
    for nm in names:
        jb2 = jb.with_node(nm, tasks[nm])
        snapshots.append(("builder", jb2, builder_digest(jb2)))
        recheck("with_node")
        jb = jb2
    edges = []
    mode = rng.choice(["clean", "clean", "mixed", "hostile"])
    p_ok = {"clean": 1.0, "mixed": 0.95, "hostile": 0.8}[mode]
    shape.append(mode)
    col.count(f"programs_{mode}")
    for _ in range(rng.randint(0, 8) if rng.random() < 0.9 else 0):
        src_ok = rng.random() < p_ok
        out_ok = rng.random() < p_ok
        sink_ok = rng.random() < p_ok
        source = rng.choice(names) if src_ok else "ghost_src"
        sink = rng.choice(names) if sink_ok else "ghost_sink"
        frum = "0" if out_ok else "nope"
        if rng.random() < 0.6:
            if sink_ok and metas[sink]["schema"] and rng.random() < p_ok:
                cands = list(metas[sink]["schema"])
                if mode == "clean" and src_ok:
                    good = [c for c in cands if compatible(metas[source]["ret"], metas[sink]["schema"][c]) is True]
                    cands = good or cands
                into = rng.choice(cands)
            elif mode == "clean":
                into = rng.randint(0, 3)
            else:
                into = "no_such_param"
        else:
            into = rng.randint(0, 3)
        e = dict(source=source, sink=sink, into=into, frum=frum)
        edges.append(e)
        jb2 = jb.with_edge(source, sink, into, frum) if frum != "0" or rng.random() < 0.5 else jb.with_edge(source, sink, into)
        snapshots.append(("builder", jb2, builder_digest(jb2)))
        recheck("with_edge")
        jb = jb2

    # ---- independent classification of the description -----------------------------------------
    dangling, conflict, open_pair = [], [], []
    for e in edges:
        s_ok = e["source"] in tasks
        o_ok = s_ok and e["frum"] == "0"
        k_ok = e["sink"] in tasks
        is_kw = isinstance(e["into"], str)
        p_ok = k_ok and (not is_kw or e["into"] in metas[e["sink"]]["schema"])
        cls = ("src" if s_ok else "nosrc", "out" if o_ok else "noout", "sink" if k_ok else "nosink", "kw" if is_kw else "ps", "param" if p_ok else "noparam")
        shape.append(cls)
        if not (s_ok and o_ok and k_ok and p_ok):
            dangling.append(e)
        elif is_kw:
            c = compatible(metas[e["source"]]["ret"], metas[e["sink"]]["schema"][e["into"]])
            if c is None:
                open_pair.append(e)
            elif c is False:
                conflict.append(e)
    ill_static = [n for n in names if metas[n]["ill_typed"]]
    kw_outside = [n for n in names if metas[n]["kw_outside_schema"]]

    col.case(shape=digest(shape), nontrivial=len(names) >= 2 and len(edges) >= 1,
             sample={"tasks": {n: {"schema": metas[n]["schema"], "ret": metas[n]["ret"], "static_kw": repr(metas[n]["exp_kw"]), "static_ps": repr(metas[n]["exp_ps"])} for n in names},
                     "edges": edges, "dangling": len(dangling), "type_conflicts": len(conflict), "open_type_pairs": len(open_pair)})
    col.count("builds")
    col.count("edges_total", len(edges))
    col.count("edges_dangling", len(dangling))
    col.count("edges_type_conflict", len(conflict))
    col.count("edges_open_pair", len(open_pair))
    witness = {"tasks": {n: {"schema": metas[n]["schema"], "ret": metas[n]["ret"], "kw": repr(metas[n]["exp_kw"])} for n in names}, "edges": edges}
    try:
        res = jb.build()
    except Exception as e:  # noqa: BLE001
        en = type(e).__name__
        missing_sink = any(x["sink"] not in tasks for x in edges)
        if en == "UnboundLocalError" and missing_sink:
            mech = "build-raises-UnboundLocalError:edge-to-missing-sink-task"
        elif en == "NameError" and "Any" in str(e) and open_pair:
            mech = "build-raises-NameError:untyped-output-into-typed-param"
        elif en == "KeyError" and kw_outside:
            mech = "build-raises-KeyError:static-kw-outside-schema"
        else:
            mech = f"build-raises:{en}"
        col.violation(mech, f"build() raised {e!r} instead of returning an Either", witness, index)
        recheck("build(raised)")
        return
    recheck("build")
    if not isinstance(res, Either):
        col.violation("build-returns-non-Either", repr(type(res)), witness, index)
        return
    has_t, has_e = res.t is not None, bool(res.e)
    if has_t == has_e:
        col.violation("build-either-both-or-neither", f"t={res.t!r:.100} e={res.e!r:.200}", witness, index)
        return
    if has_e:
        col.count("builds_rejected")
        if not isinstance(res.e, list) or not all(isinstance(x, str) for x in res.e):
            col.violation("build-problems-not-a-list-of-strings", repr(res.e)[:200], witness, index)
        if not dangling and not conflict and not open_pair and not ill_static and not kw_outside:
            col.violation("build-rejects-clean-description", f"problems reported for a well-formed description: {res.e!r:.300}", witness, index)
        return
    col.count("builds_accepted")
    job = res.t
    if not isinstance(job, core.JobInstance):
        col.violation("build-ok-not-a-JobInstance", repr(type(job)), witness, index)
        return
    if dangling:
        col.violation("build-accepts-dangling-edge", f"accepted although edges dangle: {dangling!r:.300}", witness, index)
    if conflict:
        col.violation("build-accepts-type-conflict", f"accepted although declared types conflict: {conflict!r:.300}", witness, index)
    # independent well-formedness of the *result*
    for e in job.edges:
        st = job.tasks.get(e.source.task)
        if st is None or e.source.output not in st.definition.output_schema:
            col.violation("job-edge-from-nothing", f"{e!r}", witness, index)
        kt = job.tasks.get(e.sink_task)
        if kt is None:
            col.violation("job-edge-to-missing-task", f"{e!r}", witness, index)
        elif e.sink_input_kw is not None and e.sink_input_kw not in kt.definition.input_schema:
            col.violation("job-edge-to-missing-param", f"{e!r}", witness, index)
        col.count("job_edges_checked")
    if set(job.tasks) != set(names):
        col.violation("job-tasks-differ", f"{sorted(job.tasks)} != {sorted(names)}", witness, index)
    exp_edges = sorted((e["source"], e["frum"], e["sink"], repr(e["into"])) for e in edges)
    got_edges = sorted((e.source.task, e.source.output, e.sink_task, repr(e.sink_input_kw if e.sink_input_kw is not None else e.sink_input_ps)) for e in job.edges)
    if exp_edges != got_edges:
        col.violation("job-edges-differ", f"{got_edges} != {exp_edges}", witness, index)
    for n in names:
        if n in job.tasks:
            t = job.tasks[n]
            if {k: repr(v) for k, v in t.static_input_kw.items()} != {k: repr(v) for k, v in metas[n]["exp_kw"].items()} or \
               {k: repr(v) for k, v in t.static_input_ps.items()} != {k: repr(v) for k, v in metas[n]["exp_ps"].items()}:
                col.violation("job-static-values-differ", f"task {n}: kw={t.static_input_kw!r} ps={t.static_input_ps!r}", witness, index)
            col.count("job_static_checked")
    snapshots.append(("job", job, job_digest(job)))
    # later builder calls must not touch the built job
    jb3 = jb.with_node("late", tasks[names[0]]).with_edge(names[0], "late", 0)
    try:
        jb3.build()
    except Exception:  # noqa: BLE001
        pass
    recheck("later with_node/with_edge/build")


def run_shard(spec, col: Collector):
    seed, shard = spec["seed"], spec["shard"]
    for i in range(spec["n"]):
        if col.out_of_time():
            break
        if col.want(i):
            guarded(col, i, one_program, col, case_rng(seed, shard, i), i)


def plan(tier, seed, scale=1.0):
    q = tier == "quick"
    n, copies = (400, 8) if q else (60000, 16)
    return [dict(shard=f"b{c}", n=int(n * scale), budget_s=45 if q else 700, timeout_s=150 if q else 1200,
                 hash_seed=(seed * 17 + c) % 4294967295) for c in range(copies)]
